/-
  C14 — property theorems for the `IpcClient` transition system (Klong/Model/C14.lean).
  Helper lemmas and invariants first, property theorems below the line.
  Every theorem quantifies over ALL schedules (`run` skips labels that are not enabled, so a
  schedule is an arbitrary list of labels) and any number of calls.
-/
import Klong.Model.C14
namespace Klong.C14
open Klong.Wire

/-! ## helper lemmas -/

@[grind =] theorem upd_apply (f : Nat → Call) (c k : Nat) (v : Call) :
    upd f c v k = if k = c then v else f k := rfl

theorem outcomeOf_ok {f : Fut} {r : Bytes} (h : outcomeOf f = some (.ok r)) : f = .res r := by
  cases f <;> simp [outcomeOf] at h ⊢; exact h

theorem outcomeOf_some_iff {f : Fut} : (outcomeOf f).isSome = true ↔ f ≠ .unres := by
  cases f <;> simp [outcomeOf]

/-- lift a one-step invariant to every schedule -/
theorem run_induct (P : St → Prop) (hstep : ∀ s l s', P s → step s l = some s' → P s')
    (s : St) (h : P s) (sch : List Label) : P (run s sch) := by
  induction sch generalizing s with
  | nil => exact h
  | cons l ls ih =>
    simp only [run]
    cases hs : step s l with
    | none => simpa using ih s h
    | some s' => simpa using ih s' (hstep s l s' h hs)

def ids (s : St) : List Nat := s.delivered.map (·.1)

/-! ## invariant A (both variants): bookkeeping of ids, enough for `answer_is_own` -/

structure InvA (s : St) : Prop where
  nodup : s.pending.Nodup
  started : ∀ c ∈ s.pending, (s.calls c).phase ≠ .idle ∧ (s.calls c).phase ≠ .checked
  idsNodup : (ids s).Nodup
  pendFresh : ∀ c ∈ s.pending, c ∉ ids s
  earlyFresh : ∀ c, (s.calls c).phase = .idle ∨ (s.calls c).phase = .checked → c ∉ ids s
  resDelivered : ∀ c r, (s.calls c).fut = .res r → (c, r) ∈ s.delivered
  okDelivered : ∀ c r, (s.calls c).phase = .done (.ok r) → (c, r) ∈ s.delivered

theorem invA_init (v cb fb) : InvA (init v cb fb) := by
  refine ⟨?_, ?_, ?_, ?_, ?_, ?_, ?_⟩ <;> simp [init, ids]

theorem invA_step (s : St) (l : Label) (s' : St) (h : InvA s) (hs : step s l = some s') :
    InvA s' := by
  obtain ⟨h1, h2, h3, h4, h5, h6, h7⟩ := h
  have hok := @outcomeOf_ok
  cases l
  all_goals (simp only [step] at hs)
  all_goals (repeat' (split at hs))
  all_goals (try (cases hs; done))
  all_goals (cases hs)
  all_goals (refine ⟨?_, ?_, ?_, ?_, ?_, ?_, ?_⟩ <;>
    simp only [St.setPhase, St.setFut, St.finish, St.lexit, ids] at * <;> (try split) <;> grind)

/-! ## invariant B (repaired code): who still has to be failed by the cleanup -/

def active : Phase → Bool
  | .registered | .submitted | .sent | .waiting => true
  | _ => false

def awaiting : Phase → Bool
  | .sent | .waiting => true
  | _ => false

/-- the calls the listener still owes an answer or a failure -/
def owed (s : St) (c : Nat) : Prop :=
  match s.lst with
  | .listening => c ∈ s.pending
  | .snapped _ items => c ∈ items
  | .failing _ items => c ∈ items
  | _ => False

structure InvB (s : St) : Prop where
  fixed : s.variant = .fixed
  writerGone : s.lst ≠ .listening → s.writer = false
  shape : ∀ e todo n, s.lst ≠ .iterating e todo n
  noCrash : s.lst ≠ .crashed
  nodup : s.pending.Nodup
  pendActive : ∀ c ∈ s.pending, active (s.calls c).phase = true
  listenOwes : s.lst = .listening → ∀ c, active (s.calls c).phase = true →
      (s.calls c).fut = .unres → c ∈ s.pending
  waitOwed : ∀ c, awaiting (s.calls c).phase = true → (s.calls c).fut = .unres → owed s c
  beyond : ∀ c, s.n ≤ c → (s.calls c).phase = .idle

theorem invB_init (cb fb) : InvB (init .fixed cb fb) := by
  refine ⟨?_, ?_, ?_, ?_, ?_, ?_, ?_, ?_, ?_⟩ <;> simp [init, active, awaiting, owed]

theorem invB_step (s : St) (l : Label) (s' : St) (h : InvB s) (hs : step s l = some s') :
    InvB s' := by
  obtain ⟨h0, h1, h2, h3, h4, h5, h6, h7, h8⟩ := h
  cases l
  all_goals (simp only [step] at hs)
  all_goals (repeat' (split at hs))
  all_goals (try (cases hs; done))
  all_goals (cases hs)
  all_goals (refine ⟨?_, ?_, ?_, ?_, ?_, ?_, ?_, ?_, ?_⟩ <;>
    simp only [St.setPhase, St.setFut, St.finish, St.lexit, owed, h0] at * <;>
    (try split) <;> grind [active, awaiting, Lst.cleaning])

theorem reach_invA (v cb fb) (sch : List Label) : InvA (run (init v cb fb) sch) :=
  run_induct InvA invA_step _ (invA_init v cb fb) sch

theorem reach_invB (cb fb) (sch : List Label) : InvB (run (init .fixed cb fb) sch) :=
  run_induct InvB invB_step _ (invB_init cb fb) sch

/-! ## invariant W: the send side — a request frame is written whole, once -/

structure InvW (s : St) : Prop where
  nodup : s.sentReqs.Nodup
  written : ∀ c ∈ s.sentReqs, (s.calls c).phase = .sent ∨ (s.calls c).phase = .waiting ∨
      ∃ o, (s.calls c).phase = .done o
  sentIn : ∀ c, (s.calls c).phase = .sent ∨ (s.calls c).phase = .waiting → c ∈ s.sentReqs
  onWire : ∀ c ∈ s.sentReqs, c ∈ s.outbox.map (·.1)

theorem invW_init (v cb fb) : InvW (init v cb fb) := by
  refine ⟨?_, ?_, ?_, ?_⟩ <;> simp [init]

theorem invW_step (s : St) (l : Label) (s' : St) (h : InvW s) (hs : step s l = some s') :
    InvW s' := by
  obtain ⟨h1, h2, h3, h4⟩ := h
  cases l
  all_goals (simp only [step] at hs)
  all_goals (repeat' (split at hs))
  all_goals (try (cases hs; done))
  all_goals (cases hs)
  all_goals (refine ⟨?_, ?_, ?_, ?_⟩ <;>
    simp only [St.setPhase, St.setFut, St.finish, St.lexit] at * <;> (try split) <;> grind)

theorem reach_invW (v cb fb) (sch : List Label) : InvW (run (init v cb fb) sch) :=
  run_induct InvW invW_step _ (invW_init v cb fb) sch

/-! ## more helpers -/

theorem fst_nodup_unique {l : List (Nat × Bytes)} (h : (l.map (·.1)).Nodup) {a : Nat} {b b' : Bytes}
    (h1 : (a, b) ∈ l) (h2 : (a, b') ∈ l) : b = b' := by
  induction l with
  | nil => cases h1
  | cons p ps ih =>
    simp only [List.map_cons, List.nodup_cons] at h
    rcases List.mem_cons.mp h1 with e1 | m1 <;> rcases List.mem_cons.mp h2 with e2 | m2
    · rw [← e1] at e2; exact ((Prod.mk.inj e2).2).symm
    · exfalso; apply h.1; rw [← e1]; exact List.mem_map_of_mem (f := (·.1)) m2
    · exfalso; apply h.1; rw [← e2]; exact List.mem_map_of_mem (f := (·.1)) m1
    · exact ih h.2 m1 m2

theorem blocked_enabled {s : St} (h : InvB s) (hl : s.lst = .exited) {c : Nat}
    (hb : blocked (s.calls c).phase = true) :
    enabled s (.send c) = true ∨ enabled s (.drain c) = true ∨ enabled s (.deliver c) = true := by
  cases hp : (s.calls c).phase with
  | submitted => left; simp [enabled, step, hp, hl, Lst.cleaning] <;> (split <;> simp)
  | sent => right; left; simp [enabled, step, hp, hl, Lst.cleaning] <;> (split <;> simp)
  | waiting =>
    right; right
    have hw := h.waitOwed c (by simp [hp, awaiting])
    have hne : (s.calls c).fut ≠ .unres := by
      intro hu; have := hw hu; simp [owed, hl] at this
    simp only [enabled, step, hp, hl, Lst.cleaning]
    cases hf : (s.calls c).fut with
    | unres => exact absurd hf hne
    | res b => simp [outcomeOf]
    | failed e => simp [outcomeOf]
  | idle => simp [hp, blocked] at hb
  | checked => simp [hp, blocked] at hb
  | registered => simp [hp, blocked] at hb
  | done o => simp [hp, blocked] at hb

def isOk : Outcome → Bool
  | .ok _ => true
  | _ => false

/-- a call that can no longer be answered: not yet sent, or finished with an error -/
def late : Phase → Bool
  | .idle | .checked | .registered | .submitted => true
  | .done o => !isOk o
  | _ => false

/-- own steps a late call still has to take before it has raised -/
def lateRank : Phase → Nat
  | .idle => 4
  | .checked => 3
  | .registered => 2
  | .submitted => 1
  | .done _ => 0
  | _ => 5

structure LateInv (c : Nat) (s : St) : Prop where
  invB : InvB s
  exited : s.lst = .exited
  late : late (s.calls c).phase = true

theorem late_step (c : Nat) (s : St) (l : Label) (s' : St) (h : LateInv c s)
    (hs : step s l = some s') : LateInv c s' ∧ lateRank (s'.calls c).phase ≤ lateRank (s.calls c).phase := by
  obtain ⟨hB, hl, hlate⟩ := h
  have hB' := invB_step s l s' hB hs
  have hw := hB.writerGone (by simp [hl])
  refine ⟨⟨hB', ?_, ?_⟩, ?_⟩
  all_goals (clear hB')
  all_goals (cases l)
  all_goals (simp only [step, hl, hw] at hs)
  all_goals (repeat' (split at hs))
  all_goals (try (cases hs; done))
  all_goals (cases hs)
  all_goals (simp only [St.setPhase, St.setFut, St.finish, St.lexit] at * <;> (try split) <;>
    grind [late, lateRank, isOk, Lst.cleaning])

/-- invariant used for `loss_anywhere_fails_pending`: from the moment the listener has left with
    exception `e`, call `c` is either already failed with `e` or still on the cleanup's list -/
def FailInv (e : Exc) (c : Nat) (s : St) : Prop :=
  ((s.calls c).phase = .sent ∨ (s.calls c).phase = .waiting ∨ (s.calls c).phase = .done (.exc e)
    ∨ (s.calls c).phase = .done .sendErr) ∧
  s.variant = .fixed ∧
  match s.lst with
  | .snapped e' items => e' = e ∧ ((s.calls c).fut = .failed e ∨ ((s.calls c).fut = .unres ∧ c ∈ items))
  | .failing e' items => e' = e ∧ ((s.calls c).fut = .failed e ∨ ((s.calls c).fut = .unres ∧ c ∈ items))
  | .exited => (s.calls c).fut = .failed e
  | _ => False

theorem failInv_step (e : Exc) (c : Nat) (s : St) (l : Label) (s' : St) (h : FailInv e c s)
    (hs : step s l = some s') : FailInv e c s' := by
  obtain ⟨hp, hv, hm⟩ := h
  cases l
  all_goals (simp only [step] at hs)
  all_goals (repeat' (split at hs))
  all_goals (try (cases hs; done))
  all_goals (cases hs)
  all_goals (simp only [FailInv, St.setPhase, St.setFut, St.finish, St.lexit, hv] at * <;>
    (try split) <;> grind [outcomeOf, Lst.cleaning])

theorem beBytes_length (k n : Nat) : (beBytes k n).length = k := by
  induction k generalizing n with
  | zero => rfl
  | succ k ih => simp [beBytes, ih]

theorem beVal_be4 (n : Nat) (h : n < 4294967296) : beVal (beBytes 4 n) = n := by
  simp [beBytes, beVal]; omega

theorem encodeFrame_length (id : Nat) (body : Bytes) : (encodeFrame id body).length = 20 + body.length := by
  simp [encodeFrame, beBytes_length]; omega

/-! ------------------------------------------------------------------------------------
  ## Property theorems (C14)
------------------------------------------------------------------------------------- -/

/-- **answer_is_own** (both variants, every schedule, any number of calls): a call returns `r`
    only if the listener matched a frame `(c, r)` carrying the call's own id to its pending entry. -/
theorem answer_is_own (v : Variant) (cb : Bytes) (fb : List Bytes) (sch : List Label) (c : Nat) (r : Bytes) :
    let s := run (init v cb fb) sch
    (s.calls c).phase = .done (.ok r) → (c, r) ∈ s.delivered :=
  (reach_invA v cb fb sch).okDelivered c r

/-- ... and at most once: no id is matched twice, so the value a call can return is unique. -/
theorem answer_at_most_once (v : Variant) (cb : Bytes) (fb : List Bytes) (sch : List Label) :
    let s := run (init v cb fb) sch
    (s.delivered.map (·.1)).Nodup ∧
    ∀ c r r', (c, r) ∈ s.delivered → (c, r') ∈ s.delivered → r = r' := by
  have h := (reach_invA v cb fb sch).idsNodup
  exact ⟨h, fun c r r' h1 h2 => fst_nodup_unique h h1 h2⟩

/-- **request_written_once** (both variants): under every schedule — other senders running
    between a call's `send` and its `drain` included — the request of a call is handed to the
    writer at most once and as one frame (`send` is a single step), it is on the wire, and a call
    that is waiting for its answer has been written -/
theorem request_written_once (v : Variant) (cb : Bytes) (fb : List Bytes) (sch : List Label) :
    let s := run (init v cb fb) sch
    s.sentReqs.Nodup ∧ (∀ c ∈ s.sentReqs, c ∈ s.outbox.map (·.1)) ∧
    ∀ c, (s.calls c).phase = .sent ∨ (s.calls c).phase = .waiting → c ∈ s.sentReqs := by
  have h := reach_invW v cb fb sch
  exact ⟨h.nodup, h.onWire, h.sentIn⟩

/-- the ghost log grows only when the listener decodes a frame whose id is pending -/
theorem delivered_only_by_recv (s : St) (l : Label) (s' : St) (hs : step s l = some s') :
    s'.delivered = s.delivered ∨
    (l = .recv ∧ ∃ id body rest, decodeFrame s.inbuf = some (id, body, rest) ∧ id ∈ s.pending ∧
      s'.delivered = s.delivered ++ [(id, body)]) := by
  cases l
  all_goals (simp only [step] at hs)
  all_goals (repeat' (split at hs))
  all_goals (try (cases hs; done))
  all_goals (cases hs)
  all_goals (simp only [St.setPhase, St.setFut, St.finish, St.lexit] at * <;> (try split) <;> grind)

example :
    let sch := [Label.check 0 false, .reg 0, .check 1 false, .reg 1, .submit 1, .submit 0, .send 1, .drain 1,
                .send 0, .drain 0, .feed (encodeFrame 1 [7]), .feed (encodeFrame 0 [9]), .recv, .recv,
                .deliver 0, .deliver 1]
    let s := run (init .fixed [] []) sch
    ((s.calls 0).phase, (s.calls 1).phase) = (.done (.ok [9]), .done (.ok [7])) := by decide

theorem no_stuck_waiter_aux (s : St) (hB : InvB s) (hl : s.lst = .exited)
    (hio : ∀ l : Label, l.isIo = true → enabled s l = false) (c : Nat) :
    blocked (s.calls c).phase = false := by
  cases hb : blocked (s.calls c).phase with
  | false => rfl
  | true =>
    rcases blocked_enabled hB hl hb with h | h | h
    · rw [hio (.send c) rfl] at h; cases h
    · rw [hio (.drain c) rfl] at h; cases h
    · rw [hio (.deliver c) rfl] at h; cases h

/-- **no_stuck_waiter** (repaired code): in every reachable state in which the listener has exited
    and no io-loop step is enabled, no call is blocked in `.result()`. -/
theorem no_stuck_waiter (cb : Bytes) (fb : List Bytes) (sch : List Label) :
    let s := run (init .fixed cb fb) sch
    s.lst = .exited → (∀ l : Label, l.isIo = true → enabled s l = false) →
    ∀ c, blocked (s.calls c).phase = false := by
  intro s hl hio c
  exact no_stuck_waiter_aux s (reach_invB cb fb sch) hl hio c

theorem no_stuck_waiter_decidable_aux (s : St) (hB : InvB s) (hl : s.lst = .exited)
    (hidle : ioIdle s = true) : anyBlocked s = false := by
  simp only [anyBlocked, List.any_eq_false, List.mem_range]
  intro c hc hb
  have hmem : ∀ l ∈ [Label.send c, .drain c, .deliver c], l ∈ ioLabels s := by
    intro l hlm
    simp only [ioLabels, List.mem_append, List.mem_flatMap, List.mem_range]
    exact Or.inr ⟨c, hc, hlm⟩
  simp only [ioIdle, List.all_eq_true] at hidle
  rcases blocked_enabled hB hl (by simpa using hb) with h | h | h
  · have := hidle (.send c) (hmem (.send c) (by simp)); simp [h] at this
  · have := hidle (.drain c) (hmem (.drain c) (by simp)); simp [h] at this
  · have := hidle (.deliver c) (hmem (.deliver c) (by simp)); simp [h] at this

/-- the same with the decidable tests the driver prints (`idle=`, `blocked=`) -/
theorem no_stuck_waiter_decidable (cb : Bytes) (fb : List Bytes) (sch : List Label) :
    let s := run (init .fixed cb fb) sch
    s.lst = .exited → ioIdle s = true → anyBlocked s = false := by
  intro s hl hidle
  exact no_stuck_waiter_decidable_aux s (reach_invB cb fb sch) hl hidle

theorem cleanup_progress_aux (s : St) (h : InvB s) (hc : s.lst.cleaning = true) :
    enabled s .clr = true ∨ enabled s .cl = true := by
  cases hl : s.lst with
  | listening => simp [hl, Lst.cleaning] at hc
  | exited => simp [hl, Lst.cleaning] at hc
  | crashed => simp [hl, Lst.cleaning] at hc
  | iterating e todo n => exact absurd hl (h.shape e todo n)
  | snapped e items => left; simp [enabled, step, hl]
  | failing e items =>
    right
    cases items with
    | nil => simp [enabled, step, hl]
    | cons c rest => simp [enabled, step, hl] <;> (split <;> simp)

/-- the repaired cleanup cannot die: the listener is never `crashed`, and while it is cleaning
    its next step (`clr` / `cl`) is enabled whatever the callers do in between -/
theorem fixed_cleanup_never_crashes (cb : Bytes) (fb : List Bytes) (sch : List Label) :
    let s := run (init .fixed cb fb) sch
    s.lst ≠ .crashed ∧ (s.lst.cleaning = true → enabled s .clr = true ∨ enabled s .cl = true) := by
  intro s
  exact ⟨(reach_invB cb fb sch).noCrash, cleanup_progress_aux s (reach_invB cb fb sch)⟩

/-- **late calls never wait** (second clause of no_stuck_waiter): once the listener has exited, a
    call that has not been sent yet can never reach `sent`/`waiting` nor return a value, whatever
    else is scheduled -/
theorem late_call_never_waits (cb : Bytes) (fb : List Bytes) (sch0 sch : List Label) (c : Nat) :
    let s := run (init .fixed cb fb) sch0
    s.lst = .exited → late (s.calls c).phase = true →
    let s' := run s sch
    s'.lst = .exited ∧ late (s'.calls c).phase = true ∧ blocked (s'.calls c).phase = false ∨
      (s'.calls c).phase = .submitted := by
  intro s hl hlate s'
  have h : LateInv c s' :=
    run_induct (LateInv c) (fun s l s' h hs => (late_step c s l s' h hs).1) s
      ⟨reach_invB cb fb sch0, hl, hlate⟩ sch
  have hlt := h.late
  cases hp : (s'.calls c).phase with
  | submitted => right; rfl
  | idle => left; exact ⟨h.exited, by simp [late], by simp [blocked]⟩
  | checked => left; exact ⟨h.exited, by simp [late], by simp [blocked]⟩
  | registered => left; exact ⟨h.exited, by simp [late], by simp [blocked]⟩
  | done o => left; exact ⟨h.exited, by rw [hp] at hlt; exact hlt, by simp [blocked]⟩
  | sent => rw [hp] at hlt; simp [late] at hlt
  | waiting => rw [hp] at hlt; simp [late] at hlt

/-- ... and it raises within four of its own steps: while it has not finished, its next own step
    is enabled and strictly lowers `lateRank` (≤ 4), and no step of anybody raises the rank -/
theorem late_call_progress (c : Nat) (s : St) (h : LateInv c s) :
    (∀ l s', step s l = some s' → LateInv c s' ∧ lateRank (s'.calls c).phase ≤ lateRank (s.calls c).phase) ∧
    (lateRank (s.calls c).phase ≠ 0 →
      ∃ l ∈ [Label.check c false, .reg c, .submit c, .send c], ∃ s', step s l = some s' ∧
        lateRank (s'.calls c).phase < lateRank (s.calls c).phase) := by
  refine ⟨fun l s' hs => late_step c s l s' h hs, ?_⟩
  intro hr
  have hw := h.invB.writerGone (by simp [h.exited])
  have hl := h.exited
  cases hp : (s.calls c).phase with
  | idle =>
    refine ⟨.check c false, by simp, ?_⟩
    simp only [step, hp]
    by_cases ho : s.provOpen = true
    · exact ⟨_, by simp [ho]; rfl, by simp [St.setPhase, lateRank, upd]⟩
    · exact ⟨_, by simp [ho]; rfl, by simp [St.setPhase, lateRank, upd]⟩
  | checked =>
    exact ⟨.reg c, by simp, _, by simp only [step, hp]; rfl, by simp [St.setPhase, lateRank, upd]⟩
  | registered =>
    exact ⟨.submit c, by simp, _, by simp only [step, hp]; rfl, by simp [St.setPhase, lateRank, upd]⟩
  | submitted =>
    refine ⟨.send c, by simp, s.finish c .sendErr, by simp [step, hp, hl, hw, Lst.cleaning], ?_⟩
    simp only [St.finish, St.setPhase]; split <;> simp [lateRank, upd]
  | done o => simp [hp, lateRank] at hr
  | sent => have := h.late; simp [hp, late] at this
  | waiting => have := h.late; simp [hp, late] at this

theorem late_call_raises_aux (s : St) (hB : InvB s) (hl : s.lst = .exited) (c : Nat) (close : Bool)
    (hp : (s.calls c).phase = .idle) :
    ∃ o, ((run s [.check c close, .reg c, .submit c, .send c]).calls c).phase = .done o ∧ isOk o = false := by
  have hw := hB.writerGone (by simp [hl])
  have hv := hB.fixed
  by_cases h1 : (close && !s.running) = true
  · refine ⟨.noop, ?_, rfl⟩
    simp [run, step, hp, h1, St.setPhase, upd]
  · by_cases h2 : s.provOpen = true
    · refine ⟨.sendErr, ?_, rfl⟩
      simp [run, step, hp, h1, h2, hl, hw, hv, St.setPhase, St.finish, upd, Lst.cleaning]
    · refine ⟨.notOpen, ?_, rfl⟩
      simp [run, step, hp, h1, h2, St.setPhase, upd]

/-- concretely: a call started after the listener has exited raises after its own four steps -/
theorem late_call_raises (cb : Bytes) (fb : List Bytes) (sch0 : List Label) (c : Nat) (close : Bool) :
    let s := run (init .fixed cb fb) sch0
    s.lst = .exited → (s.calls c).phase = .idle →
    ∃ o, ((run s [.check c close, .reg c, .submit c, .send c]).calls c).phase = .done o ∧ isOk o = false := by
  intro s hl hp
  exact late_call_raises_aux s (reach_invB cb fb sch0) hl c close hp

/-- **loss is detected at any byte**: a listening client whose stream ended inside a frame (or
    between frames), or whose transport failed, leaves through the cleanup with `lost` -/
theorem loss_detected (s : St) (hl : s.lst = .listening) (hs : s.serving = none)
    (h : s.inErr = true ∨ (s.eof = true ∧ decodeFrame s.inbuf = none)) :
    step s .recv = some (s.lexit .lost) := by
  rcases h with h | ⟨h1, h2⟩
  · simp [step, hl, hs, h]
  · by_cases he : s.inErr = true
    · simp [step, hl, hs, he]
    · simp [step, hl, hs, he, h1, h2]

/-- every cut of a frame — inside the id, inside the length, inside the body, or before its first
    byte — leaves an incomplete buffer (own copy of C13's `incomplete_tail`) -/
theorem cut_anywhere_incomplete (id : Nat) (body : Bytes) (hb : body.length < 4294967296) (k : Nat)
    (hk : k < (encodeFrame id body).length) : decodeFrame ((encodeFrame id body).take k) = none := by
  rw [encodeFrame_length] at hk
  unfold decodeFrame
  by_cases h20 : k < 20
  · simp [List.length_take, encodeFrame_length]; omega
  · have hlen : ((encodeFrame id body).take k).length = k := by
      simp [List.length_take, encodeFrame_length]; omega
    have hmid : (((encodeFrame id body).take k).drop 16).take 4 = beBytes 4 body.length := by
      rw [List.drop_take, List.take_take]
      have : min 4 (k - 16) = 4 := by omega
      rw [this]
      simp only [encodeFrame, List.append_assoc]
      rw [List.drop_left' (beBytes_length 16 id)]
      exact List.take_left' (beBytes_length 4 body.length)
    simp only [hlen, hmid, beVal_be4 _ hb]
    simp; omega

theorem loss_fails_aux (s : St) (hB : InvB s) (sch : List Label) (c : Nat)
    (hl : s.lst = .listening) (hsv : s.serving = none)
    (ha : awaiting (s.calls c).phase = true) (hf : (s.calls c).fut = .unres)
    (hloss : s.inErr = true ∨ (s.eof = true ∧ decodeFrame s.inbuf = none))
    (hex : (run s (.recv :: sch)).lst = .exited) :
    ((run s (.recv :: sch)).calls c).fut = .failed .lost ∧
      ∀ o, ((run s (.recv :: sch)).calls c).phase = .done o → o = .exc .lost ∨ o = .sendErr := by
  have hrecv := loss_detected s hl hsv hloss
  have hv := hB.fixed
  have hmem : c ∈ s.pending := hB.listenOwes hl c (by
    cases hp : (s.calls c).phase <;> simp [hp, awaiting, active] at ha ⊢) hf
  have h0 : FailInv .lost c (s.lexit .lost) := by
    refine ⟨?_, ?_, ?_⟩
    · cases hp : (s.calls c).phase <;> simp [hp, awaiting, St.lexit, hv] at ha ⊢
    · simp [St.lexit, hv]
    · simp [St.lexit, hv, hf, hmem]
  have h1 : FailInv .lost c (run s (.recv :: sch)) := by
    simp only [run, hrecv, Option.getD_some]
    exact run_induct (FailInv .lost c) (failInv_step .lost c) _ h0 sch
  obtain ⟨hp, _, hm⟩ := h1
  rw [hex] at hm
  refine ⟨hm, ?_⟩
  intro o ho
  rcases hp with hp | hp | hp | hp <;> rw [hp] at ho <;> cases ho <;> simp

/-- **loss_anywhere_fails_pending** (repaired code): take any reachable state in which the client
    is listening and call `c` is waiting on an unresolved future; if the connection is then lost at
    any byte (`loss_detected`, `cut_anywhere_incomplete`), then in EVERY continuation — callers
    registering during the cleanup included — once the listener has exited `c`'s future is failed
    with `lost`, and `c` can only finish by raising -/
theorem loss_anywhere_fails_pending (cb : Bytes) (fb : List Bytes) (sch0 sch : List Label) (c : Nat) :
    let s := run (init .fixed cb fb) sch0
    s.lst = .listening → s.serving = none →
    awaiting (s.calls c).phase = true → (s.calls c).fut = .unres →
    (s.inErr = true ∨ (s.eof = true ∧ decodeFrame s.inbuf = none)) →
    let s' := run s (.recv :: sch)
    s'.lst = .exited →
      (s'.calls c).fut = .failed .lost ∧
      ∀ o, (s'.calls c).phase = .done o → o = .exc .lost ∨ o = .sendErr := by
  intro s hl hsv ha hf hloss s' hex
  exact loss_fails_aux s (reach_invB cb fb sch0) sch c hl hsv ha hf hloss hex

example :
    let sch0 := [Label.check 0 false, .reg 0, .submit 0, .send 0, .drain 0, .check 1 false,
                 .feed ((encodeFrame 0 [9]).take 17), .eof]
    let s := run (init .fixed [] []) (sch0 ++ [.recv, .reg 1, .clr, .cl, .submit 1, .cl, .deliver 0, .send 1])
    (s.lst, (s.calls 0).phase, (s.calls 1).phase, s.pending, ioIdle s, anyBlocked s)
      = (.exited, .done (.exc .lost), .done .sendErr, [], true, false) := by decide

theorem server_error_aux (s : St) (hA : InvA s) (hB : InvB s) (c : Nat) (hl : s.lst = .exited)
    (hio : ∀ l : Label, l.isIo = true → enabled s l = false)
    (h1 : (s.calls c).phase ≠ .idle) (h2 : (s.calls c).phase ≠ .checked)
    (h3 : (s.calls c).phase ≠ .registered) (hnd : ∀ r, (c, r) ∉ s.delivered) :
    ∃ o, (s.calls c).phase = .done o ∧ isOk o = false := by
  have hb := no_stuck_waiter_aux s hB hl hio c
  cases hp : (s.calls c).phase with
  | idle => exact absurd hp h1
  | checked => exact absurd hp h2
  | registered => exact absurd hp h3
  | submitted => rw [hp] at hb; simp [blocked] at hb
  | sent => rw [hp] at hb; simp [blocked] at hb
  | waiting => rw [hp] at hb; simp [blocked] at hb
  | done o =>
    refine ⟨o, rfl, ?_⟩
    cases o with
    | ok r => exact absurd (hA.okDelivered c r hp) (hnd r)
    | _ => rfl

/-- **server_error_propagates**: a server-side evaluation error is not answered — the server
    closes the connection (probed live), i.e. no frame with the call's id is ever delivered.
    Then, once the listener has exited and the io loop has nothing left to run, the call has
    finished, and not with a value: it raised. -/
theorem server_error_propagates (cb : Bytes) (fb : List Bytes) (sch : List Label) (c : Nat) :
    let s := run (init .fixed cb fb) sch
    s.lst = .exited → (∀ l : Label, l.isIo = true → enabled s l = false) →
    (s.calls c).phase ≠ .idle → (s.calls c).phase ≠ .checked → (s.calls c).phase ≠ .registered →
    (∀ r, (c, r) ∉ s.delivered) →
    ∃ o, (s.calls c).phase = .done o ∧ isOk o = false := by
  intro s hl hio h1 h2 h3 hnd
  exact server_error_aux s (reach_invA .fixed cb fb sch) (reach_invB cb fb sch) c hl hio h1 h2 h3 hnd

/-- when the server goes away the listener always has a step to take (it cannot sit on EOF) -/
theorem eof_listener_progress (s : St) (hl : s.lst = .listening) (he : s.eof = true) :
    enabled s .recv = true ∨ enabled s .served = true := by
  cases hsv : s.serving with
  | some p =>
    right
    obtain ⟨id, body⟩ := p
    simp only [enabled, step, hsv, hl]
    repeat' split
    all_goals (first | rfl | contradiction | simp)
  | none =>
    left
    by_cases hi : s.inErr = true
    · simp [enabled, step, hl, hsv, hi]
    · cases hd : decodeFrame s.inbuf with
      | none => simp [enabled, step, hl, hsv, hi, hd, he]
      | some f =>
        obtain ⟨id, body, rest⟩ := f
        simp only [enabled, step, hl, hsv, hi, hd]
        repeat' split
        all_goals (first | rfl | contradiction | simp)

/-! ### the pinned cleanup loop violates `no_stuck_waiter` -/

/-- the schedule of DESIGN §8: call 0 is waiting, call 1 has passed `is_open()`; the connection
    is lost; the cleanup loop has created its iterator when call 1 registers -/
def stuckSchedule : List Label :=
  [.check 0 false, .reg 0, .submit 0, .send 0, .drain 0, .check 1 false, .eof, .recv, .reg 1, .cl,
   .submit 1, .send 1]

/-- **pinned_stuck_waiter**: every label of the schedule is enabled; the cleanup dies
    (`RuntimeError: dictionary changed size during iteration`), the io loop has nothing left to
    run, and call 0 is blocked on a future nobody will ever resolve -/
theorem pinned_stuck_waiter :
    (runStrict (init .pinned [] []) stuckSchedule).map
      (fun s => (s.lst, (s.calls 0).phase, (s.calls 0).fut, (s.calls 1).phase, ioIdle s, anyBlocked s))
    = some (.crashed, .waiting, .unres, .done .sendErr, true, true) := by decide

theorem pinned_no_stuck_waiter_fails :
    ¬ (∀ sch : List Label, let s := run (init .pinned [] []) sch
        s.lst ≠ .listening → ioIdle s = true → anyBlocked s = false) := by
  intro h
  have := h stuckSchedule
  revert this
  decide

/-- the same schedule on the repaired machine: label `cl` is not enabled where the pinned loop
    died (`clr` comes first), and with the repaired steps nobody is left blocked -/
example :
    (runStrict (init .fixed [] []) stuckSchedule).isNone = true ∧
    (let s := run (init .fixed [] [])
        [.check 0 false, .reg 0, .submit 0, .send 0, .drain 0, .check 1 false, .eof, .recv, .reg 1,
         .clr, .cl, .cl, .deliver 0, .submit 1, .send 1]
     (s.lst, (s.calls 0).phase, (s.calls 1).phase, ioIdle s, anyBlocked s)
       = (.exited, .done (.exc .lost), .done .sendErr, true, false)) := by decide

end Klong.C14
