/-
  C12 — helper lemmas, part 5: the remaining parser functions (one step of fuel each) and the
  induction over fuel.
-/
import Klong.Props.C12Parser
namespace Klong.C12

theorem isNone_str (s : List Char) : (Node.str s).isNone = false := rfl
theorem isNone_chr (c : Char) : (Node.chr c).isNone = false := rfl
theorem isNone_sym (s : List Char) : (Node.sym s).isNone = false := rfl
theorem isNone_op (s : List Char) : (Node.op s).isNone = false := rfl
theorem isNone_fn (a : Node) (b : Bool) (c : List Node) (d : Nat) (e : Bool) : (Node.fn a b c d e).isNone = false := rfl
theorem isNone_mfn (a x : Node) : (Node.mfn a x).isNone = false := rfl
theorem isNone_cond (xs : List Node) : (Node.cond xs).isNone = false := rfl
theorem isNone_exprArr (xs : List Node) : (Node.exprArr xs).isNone = false := rfl
theorem isNone_none : Node.none.isNone = true := rfl

/-- unfold the post-conditions, use the facts about `isNone` that are around, finish with omega -/
macro "pa" : tactic =>
  `(tactic| (simp only [Bd, EB, PV, PN, PA, PL, PLA, KU, need, mkCall, isNone_str, isNone_chr, isNone_sym, isNone_op,
      isNone_fn, isNone_mfn, isNone_cond, isNone_exprArr, isNone_none, Bool.false_eq_true, Bool.true_eq_false,
      false_implies, implies_true, forall_const, true_implies, and_true, true_and, reduceCtorEq, Nat.one_mul] at *; (first | omega | (simp_all only [and_true, true_and, implies_true, forall_const, true_implies, Bool.false_eq_true, false_implies] <;> omega))))

theorem step_readFn {cfg : Cfg} {t : Text} {fuel : Nat} (ih : Spec cfg t fuel) :
    ∀ i m, i ≤ t.length + 1 → need t.length i 6 ≤ fuel + 1 →
    SatW (t.length + 2) (PA t.length i) (EB t.length i 50) (readFn cfg t (fuel + 1) i m) := by
  intro i m hi hf
  rw [readFn]
  refine satW_bind (ih.prog i true m hi (by pa)) (fun q h => by pa) ?_
  intro i2 body m2 q1 h
  try dsimp only
  have hs := skip_bounds cfg t i2 true
  generalize skip cfg t i2 true = i3 at hs ⊢
  refine satW_cexpect (by omega) (by pa) ?_
  intro hcm
  have hl := cmatch_lt hcm
  split
  · refine satW_err 1 (by omega) ?_
    pa
  · split
    · refine satW_bind (ih.readFnArgs (i3 + 1) m2 (by omega) (by pa)) (fun q h' => by pa) ?_
      intro i5 fa m3 q2 h2
      refine satW_ok 1 (by omega) ?_
      pa
    · refine satW_ok 1 (by omega) ?_
      pa

theorem step_applyAdverbs {cfg : Cfg} {t : Text} {fuel : Nat} (ih : Spec cfg t fuel) :
    ∀ i a aa ar dy dv m, i ≤ t.length + 1 → need t.length i 4 ≤ fuel + 1 →
    SatW (t.length + 2) (PN 0 11 t.length i) (EB t.length i 30) (applyAdverbs cfg t (fuel + 1) i a aa ar dy dv m) := by
  intro i a aa ar dy dv m hi hf
  rw [applyAdverbs]
  have hb := adverbs_bounds t i
  cases hr : adverbsGo (t.drop i) i [] with
  | mk i1 more =>
    rw [hr] at hb
    simp only at hb
    try dsimp only
    refine satW_bind (ih.expr i1 false m (by omega) (by pa)) (fun q h => by pa) ?_
    intro i2 x m1 q1 h
    refine satW_ok 1 (by omega) ?_
    pa

theorem step_readFnArgs {cfg : Cfg} {t : Text} {fuel : Nat} (ih : Spec cfg t fuel) :
    ∀ i m, i ≤ t.length + 1 → need t.length i 5 ≤ fuel + 1 →
    SatW (t.length + 2) (PLA t.length i) (EB t.length i 40) (readFnArgs cfg t (fuel + 1) i m) := by
  intro i m hi hf
  rw [readFnArgs]
  try dsimp only
  split
  · refine satW_err 1 (by omega) ?_
    pa
  · rename_i ha
    simp only [Bool.not_eq_true', Bool.not_eq_false] at ha
    have hi1 : i < (if cmatch t i '(' = true then i + 1 else i + 2) ∧
        (if cmatch t i '(' = true then i + 1 else i + 2) ≤ t.length := by
      split
      · rename_i hc; have := cmatch_lt hc; omega
      · rename_i hc
        simp only [argsAhead, Bool.or_eq_true] at ha
        rcases ha with h | h
        · exact absurd h hc
        · have := cmatch2_lt h; omega
    generalize (if cmatch t i '(' = true then i + 1 else i + 2) = i1 at hi1 ⊢
    split
    · refine satW_ok 1 (by omega) ?_
      pa
    · refine satW_addSteps 1 (by omega) ?_
      refine satW_mono (ih.fnArgsLoop i1 i1 [] m (by omega) (by pa)) ?_ ?_
      · intro i' v q h
        pa
      · intro q h
        pa

theorem step_fnArgsLoop {cfg : Cfg} {t : Text} {fuel : Nat} (ih : Spec cfg t fuel) :
    ∀ i k acc m, i ≤ t.length + 1 → need t.length i 4 ≤ fuel + 1 →
    SatW (t.length + 2) (PLA t.length i) (EB t.length i 30) (fnArgsLoop cfg t (fuel + 1) i k acc m) := by
  intro i k acc m hi hf
  rw [fnArgsLoop]
  refine satW_bind (kgRead_units cfg t fuel i false true m hi (by pa)) (fun q h => by pa) ?_
  intro ii c m1 q1 h
  split
  · rename_i hsemi
    have hcn := isStr_isNone hsemi
    simp only [KU, hcn] at h
    try dsimp only
    rw [if_pos (by pa)]
    refine satW_addSteps 1 (by omega) ?_
    refine satW_mono (ih.fnArgsLoop ii ii _ m1 (by pa) (by pa)) ?_ ?_
    · intro i' v q h'
      pa
    · intro q h'
      pa
  · split
    · dsimp only
      refine satW_cexpect (by omega) (by pa) ?_
      intro hcm
      have hl := cmatch_lt hcm
      refine satW_ok 1 (by omega) ?_
      pa
    · refine satW_bind (ih.expr i true m1 hi (by pa)) (fun q h' => by pa) ?_
      intro i2 a m2 q2 h2
      split
      · rename_i hn
        simp only [PV, hn] at h2
        refine satW_cexpect (by omega) (by pa) ?_
        intro hcm
        have hl := cmatch_lt hcm
        exfalso
        pa
      · rename_i hn
        simp only [Bool.not_eq_true] at hn
        simp only [PV, hn] at h2
        rw [if_pos (by pa)]
        refine satW_addSteps 1 (by omega) ?_
        refine satW_mono (ih.fnArgsLoop i2 k (a :: acc) m2 (by pa) (by pa)) ?_ ?_
        · intro i' v q h'
          pa
        · intro q h'
          pa

theorem step_readCond {cfg : Cfg} {t : Text} {fuel : Nat} (ih : Spec cfg t fuel) :
    ∀ i m, i ≤ t.length + 1 → need t.length i 4 ≤ fuel + 1 →
    SatW (t.length + 2) (PA t.length i) (EB t.length i 30) (readCond cfg t (fuel + 1) i m) := by
  intro i m hi hf
  rw [readCond]
  refine satW_bind (ih.expr i true m hi (by pa)) (fun q h => by pa) ?_
  intro i1 n1 m1 q1 h1
  have hb1 : i ≤ i1 ∧ i1 ≤ t.length + 1 ∧ Bd 12 10 i i1 q1 := ⟨h1.1, h1.2.1, h1.2.2.2.2⟩
  clear h1
  refine satW_cexpect (by omega) (by pa) ?_
  intro hc1
  have hl1 := cmatch_lt hc1
  refine satW_bind (ih.expr (i1 + 1) true m1 (by omega) (by pa)) (fun q h => by pa) ?_
  intro i3 n2 m2 q2 h2
  have hb2 : i1 + 1 ≤ i3 ∧ i3 ≤ t.length + 1 ∧ Bd 12 10 (i1 + 1) i3 q2 := ⟨h2.1, h2.2.1, h2.2.2.2.2⟩
  clear h2
  try dsimp only
  have hs := skip_bounds cfg t i3 true
  generalize skip cfg t i3 true = i4 at hs ⊢
  split
  · rename_i hc
    have hl2 := cmatch2_lt hc
    refine satW_bind (ih.readCond (i4 + 2) m2 (by omega) (by pa)) (fun q h => by pa) ?_
    intro i5 n3 m3 q3 h3
    refine satW_ok 1 (by omega) ?_
    pa
  · refine satW_cexpect (by omega) (by pa) ?_
    intro hc2
    have hl2 := cmatch_lt hc2
    refine satW_bind (ih.expr (i4 + 1) true m2 (by omega) (by pa)) (fun q h => by pa) ?_
    intro i6 n3 m3 q3 h3
    have hb3 : i4 + 1 ≤ i6 ∧ i6 ≤ t.length + 1 ∧ Bd 12 10 (i4 + 1) i6 q3 := ⟨h3.1, h3.2.1, h3.2.2.2.2⟩
    clear h3
    try dsimp only
    have hs2 := skip_bounds cfg t i6 true
    generalize skip cfg t i6 true = i7 at hs2 ⊢
    refine satW_cexpect (by omega) (by pa) ?_
    intro hc3
    have hl3 := cmatch_lt hc3
    refine satW_ok 2 (by omega) ?_
    pa

theorem step_readExprArray {cfg : Cfg} {t : Text} {fuel : Nat} (ih : Spec cfg t fuel) :
    ∀ i m, i ≤ t.length + 1 → need t.length i 5 ≤ fuel + 1 →
    SatW (t.length + 2) (PL 0 2 t.length i) (EB t.length i 40) (readExprArray cfg t (fuel + 1) i m) := by
  intro i0 m hi hf
  rw [readExprArray]
  have hs := skip_bounds cfg t i0 true
  generalize skip cfg t i0 true = i at hs ⊢
  refine satW_addSteps 1 (by omega) ?_
  refine satW_mono (ih.exprArrayLoop i [] m (by omega) (by pa)) ?_ ?_
  · intro i' v q h
    pa
  · intro q h
    pa

theorem step_exprArrayLoop {cfg : Cfg} {t : Text} {fuel : Nat} (ih : Spec cfg t fuel) :
    ∀ i acc m, i ≤ t.length + 1 → need t.length i 4 ≤ fuel + 1 →
    SatW (t.length + 2) (PL 1 1 t.length i) (EB t.length i 30) (exprArrayLoop cfg t (fuel + 1) i acc m) := by
  intro i acc m hi hf
  rw [exprArrayLoop]
  split
  · rename_i hc
    simp only [Bool.and_eq_true, decide_eq_true_eq, Bool.not_eq_true'] at hc
    refine satW_bind (ih.expr i true m hi (by pa)) (fun q h => by pa) ?_
    intro i1 e m1 q1 h
    have hb : i < i1 ∧ i1 ≤ t.length + 1 ∧ Bd 12 10 i i1 q1 := by
      cases hv : e.isNone
      · simp only [PV, hv] at h; pa
      · simp only [PV, hv] at h; pa
    clear h
    try dsimp only
    have hs := skip_bounds cfg t i1 true
    generalize skip cfg t i1 true = i2 at hs ⊢
    split
    · rename_i hsc
      have hl := cmatch_lt hsc
      have hs3 := skip_bounds cfg t (i2 + 1) true
      generalize skip cfg t (i2 + 1) true = i3 at hs3 ⊢
      rw [if_pos (by omega)]
      refine satW_addSteps 1 (by omega) ?_
      refine satW_mono (ih.exprArrayLoop i3 _ m1 (by omega) (by pa)) ?_ ?_
      · intro i' v q h'
        pa
      · intro q h'
        pa
    · split
      · rename_i hsc
        have hl := cmatch_lt hsc
        refine satW_ok 1 (by omega) ?_
        pa
      · rw [if_pos (by omega)]
        refine satW_addSteps 1 (by omega) ?_
        refine satW_mono (ih.exprArrayLoop i2 _ m1 (by omega) (by pa)) ?_ ?_
        · intro i' v q h'
          pa
        · intro q h'
          pa
  · refine satW_ok 1 (by omega) ?_
    have h1 : (if cmatch t i ']' = true then i + 1 else i) ≤ t.length + 1 := by
      split
      · rename_i hcm; have := cmatch_lt hcm; omega
      · omega
    have h2 : i ≤ (if cmatch t i ']' = true then i + 1 else i) := by split <;> omega
    have h3 : (if cmatch t i ']' = true then i + 1 else i) ≤ i + 1 := by split <;> omega
    generalize (if cmatch t i ']' = true then i + 1 else i) = i' at h1 h2 h3 ⊢
    pa

theorem step_exprLoop {cfg : Cfg} {t : Text} {fuel : Nat} (ih : Spec cfg t fuel) :
    ∀ i a ii aa ign m, i ≤ ii → ii ≤ t.length + 1 → a.isNone = false → (aa.isNone = false → i < ii) →
    need t.length i 4 ≤ fuel + 1 →
    SatW (t.length + 2) (PN 0 1 t.length i) (EB t.length i 20) (exprLoop cfg t (fuel + 1) i a ii aa ign m) := by
  intro i a ii aa ign m h1 h2 ha haa hf
  rw [exprLoop]
  split
  · rename_i hc
    have haan : aa.isNone = false := by
      simp only [Bool.or_eq_true] at hc
      rcases hc with h | h
      · exact isOpOrSym_isNone h
      · exact isStr_isNone h
    have hii := haa haan
    try dsimp only
    refine satW_bind (P1 := fun i5 v q => ii ≤ i5 ∧ i5 ≤ t.length + 1 ∧ v.isNone = false ∧ q ≤ 100 * (i5 - ii) + 1)
      (E1 := EB t.length ii 50) ?_ (fun q h => by pa) ?_
    · -- the verb
      split
      · refine satW_mono (ih.readFn ii m h2 (by pa)) ?_ ?_
        · intro i' v q h
          pa
        · intro q h
          pa
      · split
        · rename_i hargs
          simp only [Bool.and_eq_true] at hargs
          refine satW_bind (ih.readFnArgs ii m h2 (by pa)) (fun q h => by pa) ?_
          intro i5 fa m3 q1 h
          refine satW_ok 1 (by omega) ?_
          pa
        · refine satW_ok 1 (by omega) ?_
          simp only [haan]
          pa
    · intro i5 v m3 q1 hv
      refine satW_bind (P1 := fun i8 a' q => i5 ≤ i8 ∧ i8 ≤ t.length + 1 ∧ a'.isNone = false ∧ q ≤ 100 * (i8 - i5) + 11)
        (E1 := EB t.length i5 30) ?_ (fun q h => by pa) ?_
      · -- the right operand
        refine satW_onAdverb ?_ ?_
        · intro i6 adv h6 h6'
          refine satW_mono (ih.applyAdverbs i6 v adv 2 true a m3 (by omega) (by pa)) ?_ ?_
          · intro i' v' q h
            pa
          · intro q h
            pa
        · refine satW_bind (ih.expr i5 ign m3 (by pa) (by pa)) (fun q h => by pa) ?_
          intro i7 aaa m4 q2 h
          have hb : i5 ≤ i7 ∧ i7 ≤ t.length + 1 ∧ Bd 12 10 i5 i7 q2 := ⟨h.1, h.2.1, h.2.2.2.2⟩
          clear h
          refine satW_ok 1 (by omega) ?_
          pa
      · intro i8 a' m5 q2 hs
        refine satW_bind (kgRead_units cfg t fuel i8 false ign m5 (by pa) (by pa)) (fun q h => by pa) ?_
        intro ii' aa' m6 q3 h3
        rw [if_pos (by pa)]
        refine satW_addSteps 1 (by omega) ?_
        refine satW_mono (ih.exprLoop i8 a' ii' aa' ign m6 (by pa) (by pa) hs.2.2.1
          (by intro hv'; simp only [KU, hv'] at h3; pa) (by pa)) ?_ ?_
        · intro i' v' q h
          have hb3 : q3 ≤ 8 := h3.2.2.2.2
          clear h3
          pa
        · intro q h
          have hb3 : q3 ≤ 8 := h3.2.2.2.2
          clear h3
          pa
  · split
    · have hs := skip_bounds cfg t i true
      try dsimp only
      generalize skip cfg t i true = i' at hs ⊢
      refine satW_ok 1 (by omega) ?_
      simp only [PN, ha]
      pa
    · refine satW_ok 1 (by omega) ?_
      simp only [PN, ha]
      pa

end Klong.C12
