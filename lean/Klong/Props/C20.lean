/-
  C20 — property theorems: web routes and websocket messages reach their Klong handler
  exactly once, intact.  Helper lemmas first, property theorems below the line.
-/
import Klong.Model.C20
import Klong.Props.C20Json
namespace Klong.C20
open Klong.Wire

/-! ## helper lemmas: association lists -/

theorem lookup_cons_ite {β : Type} (k a : String) (b : β) (l : List (String × β)) :
    List.lookup k ((a, b) :: l) = if k = a then some b else List.lookup k l := by
  by_cases h : k = a
  · simp [List.lookup, h]
  · simp [List.lookup, h, beq_false_of_ne h]

theorem lookup_append_some {β : Type} (k : String) (l l' : List (String × β)) :
    List.lookup k (l ++ l') = (List.lookup k l).or (List.lookup k l') := by
  induction l with
  | nil => simp [List.lookup]
  | cons p l ih =>
    obtain ⟨a, b⟩ := p
    simp only [List.cons_append, lookup_cons_ite, ih]
    split <;> simp

/-! ## helper lemmas: registration with early capture builds the table of bound closures -/

def mkSlot (e : Path × Wrapped) : Path × Slot := (e.1, .bound ⟨e.2, e.1⟩)

theorem foldl_regStep_early (env : Env) (routes : Routes) (r : Reg) :
    (routes.foldl (regStep .early env) r).table = r.table ++ (registered env routes).map mkSlot := by
  induction routes generalizing r with
  | nil => simp [registered]
  | cons e t ih =>
    obtain ⟨p, v⟩ := e
    simp only [List.foldl_cons]
    rw [ih]
    cases v with
    | fn f =>
      by_cases h : f.arity = 1
      · simp [regStep, registered, h, mkSlot]
      · simp [regStep, registered, h]
    | call => simp [regStep, registered]
    | other => simp [regStep, registered]

theorem lookup_map_mkSlot (l : List (Path × Wrapped)) (p : Path) :
    (l.map mkSlot).lookup p = (l.lookup p).map (fun w => Slot.bound ⟨w, p⟩) := by
  induction l with
  | nil => simp [List.lookup]
  | cons e t ih =>
    obtain ⟨q, w⟩ := e
    simp only [List.map_cons, mkSlot, lookup_cons_ite]
    by_cases h : p = q
    · subst h; simp
    · simp only [h, if_false]; exact ih

/-- the table `.web` builds for a method is the user's dictionary, filtered, with bound closures -/
theorem build_early_lookup (env : Env) (gets posts : Routes) (m : Method) (p : Path) :
    ((build .early env gets posts).table m).lookup p =
      (((specOf env gets posts).table m).lookup p).map (fun w => Slot.bound ⟨w, p⟩) := by
  cases m with
  | get =>
    simp only [Server.table, build, Spec.table, specOf]
    rw [foldl_regStep_early]
    simpa using lookup_map_mkSlot (registered env gets) p
  | post =>
    simp only [Server.table, build, Spec.table, specOf]
    rw [foldl_regStep_early]
    simpa using lookup_map_mkSlot (registered env posts) p

/-- a dictionary entry that is a monadic plain function is registered under its own route -/
theorem registered_lookup_fn (env : Env) (routes : Routes) (p : Path) (f : Fn)
    (h : routes.lookup p = some (.fn f)) (ha : f.arity = 1) :
    (registered env routes).lookup p = some (wrap env f) := by
  induction routes with
  | nil => simp [List.lookup] at h
  | cons e t ih =>
    obtain ⟨q, v⟩ := e
    rw [lookup_cons_ite] at h
    by_cases hq : p = q
    · subst hq
      simp only [if_true, Option.some.injEq] at h
      subst h
      simp [registered, ha, lookup_cons_ite]
    · simp only [hq, if_false] at h
      cases v with
      | fn g =>
        by_cases hg : g.arity = 1
        · simp [registered, hg, lookup_cons_ite, hq, ih h]
        · simp [registered, hg, ih h]
      | call => simp [registered, ih h]
      | other => simp [registered, ih h]

/-- a path that is no key of the dictionary is not registered -/
theorem registered_lookup_none (env : Env) (routes : Routes) (p : Path)
    (h : ∀ e ∈ routes, e.1 ≠ p) : (registered env routes).lookup p = none := by
  induction routes with
  | nil => simp [registered, List.lookup]
  | cons e t ih =>
    obtain ⟨q, v⟩ := e
    have hq : p ≠ q := fun hh => h (q, v) (by simp) hh.symm
    have ht : ∀ e ∈ t, e.1 ≠ p := fun e he => h e (by simp [he])
    cases v with
    | fn g =>
      by_cases hg : g.arity = 1
      · simp [registered, hg, lookup_cons_ite, hq, ih ht]
      · simp [registered, hg, ih ht]
    | call => simp [registered, ih ht]
    | other => simp [registered, ih ht]

/-! ## helper lemmas: simulation between the closure tables and the dictionary lookup -/

structure Sim (s : Server) (a : Spec) : Prop where
  tab : ∀ m p, (s.table m).lookup p = ((a.table m).lookup p).map (fun w => Slot.bound ⟨w, p⟩)
  env : s.env = a.env
  up : s.up = a.up

theorem sim_build (env : Env) (gets posts : Routes) :
    Sim (build .early env gets posts) (specOf env gets posts) :=
  ⟨build_early_lookup env gets posts, rfl, rfl⟩

theorem sim_request {s : Server} {a : Spec} (h : Sim s a) (m : Method) (p : Path) (ps : Params) :
    request s m p ps = a.request m p ps := by
  unfold request Spec.request
  rw [h.up, h.tab m p, h.tab m.other p, h.env]
  cases a.up with
  | false => rfl
  | true =>
    cases h1 : (a.table m).lookup p with
    | some w => simp [closureOf]
    | none =>
      cases h2 : (a.table m.other).lookup p <;> simp

theorem sim_step {s : Server} {a : Spec} (h : Sim s a) (op : Op) :
    Sim (step s op).1 (a.step op).1 ∧ (step s op).2 = (a.step op).2 := by
  cases op with
  | req m p ps =>
    refine ⟨h, ?_⟩
    simp only [step, Spec.step, sim_request h]
  | define n v =>
    simp only [step, Spec.step, h.env]
    exact ⟨⟨h.tab, by simp [h.env], h.up⟩, trivial⟩
  | webc =>
    simp only [step, Spec.step, h.up]
    cases a.up with
    | false => exact ⟨⟨h.tab, h.env, by simpa using h.up⟩, by simp⟩
    | true => exact ⟨⟨h.tab, h.env, rfl⟩, by simp⟩

theorem sim_run {s : Server} {a : Spec} (h : Sim s a) (ops : List Op) :
    Sim (run s ops).1 (a.run ops).1 ∧ (run s ops).2 = (a.run ops).2 := by
  induction ops generalizing s a with
  | nil => exact ⟨h, rfl⟩
  | cons op ops ih =>
    obtain ⟨h1, h2⟩ := sim_step h op
    obtain ⟨i1, i2⟩ := ih h1
    have h2a : (step s op).2.1 = (a.step op).2.1 := by rw [h2]
    have h2b : (step s op).2.2 = (a.step op).2.2 := by rw [h2]
    have i2a : (run (step s op).1 ops).2.1 = ((a.step op).1.run ops).2.1 := by rw [i2]
    have i2b : (run (step s op).1 ops).2.2 = ((a.step op).1.run ops).2.2 := by rw [i2]
    simp only [run, Spec.run]
    exact ⟨i1, by rw [h2a, h2b, i2a, i2b]⟩

/-- what a history does to the global variables and to the running flag (tables never change) -/
def envAfter (env : Env) : List Op → Env
  | [] => env
  | .define n v :: ops => envAfter (env.define n v) ops
  | _ :: ops => envAfter env ops

def isWebc : Op → Bool
  | .webc => true
  | _ => false

theorem spec_run_state (a : Spec) (ops : List Op) :
    (a.run ops).1.gets = a.gets ∧ (a.run ops).1.posts = a.posts ∧
    (a.run ops).1.env = envAfter a.env ops ∧ (a.run ops).1.up = (a.up && !ops.any isWebc) := by
  induction ops generalizing a with
  | nil => simp [Spec.run, envAfter]
  | cons op ops ih =>
    simp only [Spec.run]
    cases op with
    | req m p ps =>
      have := ih a
      simpa [Spec.step, envAfter, isWebc] using this
    | define n v =>
      have := ih { a with env := a.env.define n v }
      simpa [Spec.step, envAfter, isWebc] using this
    | webc =>
      cases hu : a.up with
      | true =>
        have := ih { a with up := false }
        simpa [Spec.step, envAfter, isWebc, hu] using this
      | false =>
        have := ih a
        simpa [Spec.step, envAfter, isWebc, hu] using this

/-- the state of a server started by `.web(…;gets;posts)` under `env0` after the history `pre` -/
def after (env0 : Env) (gets posts : Routes) (pre : List Op) : Server :=
  (run (build .early env0 gets posts) pre).1

def Routes.of (gets posts : Routes) : Method → Routes
  | .get => gets
  | .post => posts

theorem sim_after (env0 : Env) (gets posts : Routes) (pre : List Op) :
    Sim (after env0 gets posts pre) ((specOf env0 gets posts).run pre).1 :=
  (sim_run (sim_build env0 gets posts) pre).1

theorem after_env (env0 : Env) (gets posts : Routes) (pre : List Op) :
    (after env0 gets posts pre).env = envAfter env0 pre := by
  rw [(sim_after env0 gets posts pre).env]
  exact (spec_run_state _ pre).2.2.1

theorem after_up (env0 : Env) (gets posts : Routes) (pre : List Op) :
    (after env0 gets posts pre).up = !pre.any isWebc := by
  rw [(sim_after env0 gets posts pre).up]
  simpa [specOf] using (spec_run_state (specOf env0 gets posts) pre).2.2.2

theorem after_table (env0 : Env) (gets posts : Routes) (pre : List Op) (m : Method) (p : Path) :
    ((after env0 gets posts pre).table m).lookup p =
      ((registered env0 (Routes.of gets posts m)).lookup p).map (fun w => Slot.bound ⟨w, p⟩) := by
  rw [(sim_after env0 gets posts pre).tab m p]
  have h := spec_run_state (specOf env0 gets posts) pre
  cases m with
  | get => simp only [Spec.table]; rw [h.1]; rfl
  | post => simp only [Spec.table]; rw [h.2.1]; rfl

/-- requests never change the server -/
theorem step_req_state (s : Server) (m : Method) (p : Path) (ps : Params) :
    (step s (.req m p ps)).1 = s := rfl

theorem run_down (s : Server) (h : s.up = false) (ops : List Op) :
    (run s ops).1.up = false ∧ (run s ops).2.2 = [] ∧
    ∀ o ∈ (run s ops).2.1, ∀ r, o = .resp r → r = .noAnswer := by
  induction ops generalizing s with
  | nil => simp [run, h]
  | cons op ops ih =>
    cases op with
    | req m p ps =>
      obtain ⟨i1, i2, i3⟩ := ih s h
      simp only [run, step, request, h]
      refine ⟨i1, by simpa using i2, ?_⟩
      intro o ho r hr
      simp only [Bool.not_false, if_true, List.mem_cons] at ho
      rcases ho with ho | ho
      · subst ho; cases hr; rfl
      · exact i3 o ho r hr
    | define n v =>
      obtain ⟨i1, i2, i3⟩ := ih { s with env := s.env.define n v } h
      simp only [run, step]
      refine ⟨i1, by simpa using i2, ?_⟩
      intro o ho r hr
      simp only [List.mem_cons] at ho
      rcases ho with ho | ho
      · subst ho; cases hr
      · exact i3 o ho r hr
    | webc =>
      obtain ⟨i1, i2, i3⟩ := ih s h
      simp only [run, step, h]
      refine ⟨i1, by simpa using i2, ?_⟩
      intro o ho r hr
      simp only [Bool.false_eq_true, if_false, List.mem_cons] at ho
      rcases ho with ho | ho
      · subst ho; cases hr
      · exact i3 o ho r hr

/-! ------------------------------------------------------------------------------------
  ## Property theorems (C20) — web
------------------------------------------------------------------------------------- -/

/-- **run_refines_spec**: for every route table (any size), every global environment and every
    sequence of requests, redefinitions and `.webc`, the server built by the registration loop
    (closures capturing `fn`/`route` per iteration) answers and logs exactly like the
    specification that looks each request up in the dictionaries the user passed. -/
theorem run_refines_spec (env : Env) (gets posts : Routes) (ops : List Op) :
    (run (build .early env gets posts) ops).2 = ((specOf env gets posts).run ops).2 :=
  (sim_run (sim_build env gets posts) ops).2

/-- the function a request to the route of `f` runs after the history `pre`: the current
    definition of the symbol `f` was bound to when `.web` ran, or `f` itself -/
def handlerNow (env0 : Env) (pre : List Op) (f : Fn) : Fn :=
  resolve (envAfter env0 pre) (wrap env0 f)

/-- **route_exactly_once**: after any history that did not stop the server, a request to a route
    whose dictionary entry is the monadic function `f` runs exactly one handler body — the
    current definition `g` of the symbol `f` was bound to at registration (or `f` itself) —
    with exactly the request's parameters, and the body of the response is the text of its
    result (400 if it raises; 400 and no invocation if `g` is no longer monadic). -/
theorem route_exactly_once (env0 : Env) (gets posts : Routes) (pre : List Op)
    (m : Method) (p : Path) (ps : Params) (f : Fn)
    (hreg : (Routes.of gets posts m).lookup p = some (.fn f)) (har : f.arity = 1)
    (hup : pre.any isWebc = false) :
    request (after env0 gets posts pre) m p ps =
      if (handlerNow env0 pre f).callArity = 1 then
        (respOf ((handlerNow env0 pre f).beh ps), [((handlerNow env0 pre f).id, ps)])
      else (.bad, []) := by
  have ht := after_table env0 gets posts pre m p
  rw [registered_lookup_fn env0 _ p f hreg har] at ht
  have hu : (after env0 gets posts pre).up = true := by simp [after_up, hup]
  have he : (after env0 gets posts pre).env = envAfter env0 pre := after_env env0 gets posts pre
  unfold request
  simp only [hu, ht, Option.map_some, closureOf, invoke, he, handlerNow]
  by_cases hg : (resolve (envAfter env0 pre) (wrap env0 f)).callArity = 1
  · simp [hg]
  · simp [hg, respOf]

/-- **params_exactly_by_method**: whatever travels in the other place — a body on a GET, a query
    string on the URL of a POST — the handler of a registered monadic route is called with exactly
    the query parameters (GET) / exactly the form parameters (POST). -/
theorem params_exactly_by_method (env0 : Env) (gets posts : Routes) (pre : List Op)
    (m : Method) (p : Path) (query form : Params) (f : Fn)
    (hreg : (Routes.of gets posts m).lookup p = some (.fn f)) (har : f.arity = 1)
    (hup : pre.any isWebc = false) (hg : (handlerNow env0 pre f).callArity = 1) :
    (requestRaw (after env0 gets posts pre) m p query form).2 =
      [((handlerNow env0 pre f).id, match m with | .get => query | .post => form)] := by
  unfold requestRaw
  rw [route_exactly_once env0 gets posts pre m p _ f hreg har hup]
  cases m <;> simp [hg, paramsFor]

/-- **failure_contained**: a request whose handler raises is answered 400, the handler body ran
    once, and the server is left exactly as it was: whatever follows is served as if the failing
    request had not happened. -/
theorem failure_contained (env0 : Env) (gets posts : Routes) (pre : List Op)
    (m : Method) (p : Path) (ps : Params) (f : Fn)
    (hreg : (Routes.of gets posts m).lookup p = some (.fn f)) (har : f.arity = 1)
    (hup : pre.any isWebc = false)
    (hg : (handlerNow env0 pre f).callArity = 1)
    (hraise : (handlerNow env0 pre f).beh ps = .raised) :
    (step (after env0 gets posts pre) (.req m p ps)).2 =
        (.resp .bad, [((handlerNow env0 pre f).id, ps)]) ∧
    (step (after env0 gets posts pre) (.req m p ps)).1 = after env0 gets posts pre ∧
    ∀ ops, run (step (after env0 gets posts pre) (.req m p ps)).1 ops =
           run (after env0 gets posts pre) ops := by
  have h := route_exactly_once env0 gets posts pre m p ps f hreg har hup
  simp only [hg, if_true, hraise, respOf] at h
  refine ⟨?_, rfl, fun _ => rfl⟩
  simp only [step, h]

/-- **unknown_path_no_handler**: a path that is not registered for the method reaches no handler
    (404, or 405 when the path is registered for the other method), in every state. -/
theorem unknown_path_no_handler (env0 : Env) (gets posts : Routes) (pre : List Op)
    (m : Method) (p : Path) (ps : Params)
    (hun : (registered env0 (Routes.of gets posts m)).lookup p = none) :
    let s := after env0 gets posts pre
    (request s m p ps).2 = [] ∧
    ((request s m p ps).1 = .notFound ∨ (request s m p ps).1 = .notAllowed ∨
     (request s m p ps).1 = .noAnswer) := by
  intro s
  have ht := after_table env0 gets posts pre m p
  rw [hun] at ht
  unfold request
  cases hu : s.up with
  | false => simp
  | true =>
    simp only [Bool.not_true, Bool.false_eq_true, if_false, s, ht, Option.map_none]
    split <;> simp

/-- a path that is no key of the method's dictionary is unknown -/
theorem unknown_key_no_handler (env0 : Env) (gets posts : Routes) (pre : List Op)
    (m : Method) (p : Path) (ps : Params)
    (hun : ∀ e ∈ Routes.of gets posts m, e.1 ≠ p) :
    (request (after env0 gets posts pre) m p ps).2 = [] :=
  (unknown_path_no_handler env0 gets posts pre m p ps
    (registered_lookup_none env0 _ p hun)).1

/-- **after_shutdown_no_answer**: `.webc` on a live server returns 1 (0 on a stopped one);
    afterwards, whatever is sent or redefined, no request is answered and no handler runs. -/
theorem after_shutdown_no_answer (s : Server) (ops : List Op) :
    (step s .webc).2.1 = .closed (if s.up then 1 else 0) ∧
    (run (step s .webc).1 ops).2.2 = [] ∧
    ∀ o ∈ (run (step s .webc).1 ops).2.1, ∀ r, o = .resp r → r = .noAnswer := by
  have hd : (step s .webc).1.up = false := by
    cases h : s.up <;> simp [step, h]
  refine ⟨?_, (run_down _ hd ops).2⟩
  cases h : s.up <;> simp [step, h]

/-- **burst_independent**: requests issued together and served by the io loop one handler at a
    time, in whatever order: the server is unchanged and each request gets the response and the
    handler invocation it would get alone. -/
theorem burst_independent (s : Server) (reqs : List (Method × Path × Params)) :
    (run s (reqs.map fun r => .req r.1 r.2.1 r.2.2)).1 = s ∧
    (run s (reqs.map fun r => .req r.1 r.2.1 r.2.2)).2.1 =
      reqs.map (fun r => .resp (request s r.1 r.2.1 r.2.2).1) ∧
    (run s (reqs.map fun r => .req r.1 r.2.1 r.2.2)).2.2 =
      reqs.flatMap (fun r => (request s r.1 r.2.1 r.2.2).2) := by
  induction reqs with
  | nil => simp [run]
  | cons r t ih =>
    obtain ⟨i1, i2, i3⟩ := ih
    simp only [List.map_cons, run, step, List.flatMap_cons]
    exact ⟨i1, by rw [i2], by rw [i3]⟩

/-! ### non-vacuity and the late-capture variant -/

def f1 : Fn := { id := 1, arity := 1, beh := fun _ => .ret "one" }
def f2 : Fn := { id := 2, arity := 1, beh := fun ps => .ret ((ps.lookup "k").getD ":undefined") }
def f3 : Fn := { id := 3, arity := 1, beh := fun _ => .raised }
def f1' : Fn := { id := 4, arity := 1, beh := fun _ => .ret "uno" }
/-- `h1::render("<p>";"hello ";)`: a triad with two fixed arguments and one open slot -/
def fProj : Fn := { id := 5, arity := 3, openSlots := 1, beh := fun _ => .ret "<p>hello world" }
/-- `h1::render("<p>";;)`: two open slots, no longer a monad -/
def fProj2 : Fn := { id := 6, arity := 3, openSlots := 2, beh := fun _ => .ret "never" }
def envW : Env := [("h1", .fn f1), ("h2", .fn f2), ("h3", .fn f3)]
def getsW : Routes := [("/a", .fn f1), ("/b", .fn f2), ("/c", .fn f3), ("/skip", .call)]
def postsW : Routes := [("/a", .fn f2)]

/-- a concrete history: good requests on both methods, a raising handler, an unknown path, a
    wrong method, a redefinition, `.webc`, a request after it, a second `.webc` -/
example :
    (run (build .early envW getsW postsW)
      [.req .get "/a" [], .req .post "/a" [("k", "é&=")], .req .get "/c" [("q", "1")],
       .req .get "/zzz" [], .req .post "/b" [], .req .get "/skip" [],
       .define "h1" (.fn f1'), .req .get "/a" [("x", "y")],
       .webc, .req .get "/a" [], .webc]).2 =
    ([.resp (.ok "one"), .resp (.ok "é&="), .resp .bad, .resp .notFound, .resp .notAllowed,
      .resp .notFound, .defined, .resp (.ok "uno"), .closed 1, .resp .noAnswer, .closed 0],
     [(1, []), (2, [("k", "é&=")]), (3, [("q", "1")]), (4, [("x", "y")])]) := by
  decide

/-- **projection_handler_served**: a route whose handler symbol is re-bound between requests to a
    projection with exactly one open slot — whatever the arity of the underlying function and
    however many arguments are fixed — is served: one invocation with exactly the request's
    parameters, the body is the text of the result. -/
theorem projection_handler_served (env0 : Env) (gets posts : Routes) (pre : List Op)
    (m : Method) (p : Path) (ps : Params) (f : Fn)
    (hreg : (Routes.of gets posts m).lookup p = some (.fn f)) (har : f.arity = 1)
    (hup : pre.any isWebc = false) (hopen : (handlerNow env0 pre f).openSlots = 1) :
    request (after env0 gets posts pre) m p ps =
      (respOf ((handlerNow env0 pre f).beh ps), [((handlerNow env0 pre f).id, ps)]) := by
  rw [route_exactly_once env0 gets posts pre m p ps f hreg har hup]
  simp [Fn.callArity, hopen]

/-- non-vacuity: `h1` re-bound to a projection of a triad with one open slot is served (200), to one
    with two open slots it is answered 400 without running anything; and counting the fixed
    arguments instead of the open slots (`callArityFixedCounted`) would demand 2 arguments of the
    former: the slip that answers 400 for a perfectly good monad. -/
example :
    (run (build .early envW getsW postsW)
      [.define "h1" (.fn fProj), .req .get "/a" [("k", "world")],
       .define "h1" (.fn fProj2), .req .get "/a" []]).2 =
    ([.defined, .resp (.ok "<p>hello world"), .defined, .resp .bad], [(5, [("k", "world")])]) ∧
    fProj.callArity = 1 ∧ fProj.callArityFixedCounted = 2 := by
  decide

/-- the hypotheses of `route_exactly_once` / `failure_contained` are satisfiable -/
example : (Routes.of getsW postsW .get).lookup "/c" = some (.fn f3) ∧ f3.arity = 1 ∧
    (handlerNow envW [] f3).beh [] = .raised := by
  refine ⟨rfl, rfl, rfl⟩

/-- **late_capture_breaks**: if `_get` read `fn_wrapped`/`route` when the request arrives instead
    of capturing them per iteration, `route_exactly_once` would fail already for two routes:
    the request to `/a` runs the handler of `/b`. -/
theorem late_capture_breaks :
    ∃ (env0 : Env) (gets posts : Routes) (m : Method) (p : Path) (ps : Params) (f : Fn),
      (Routes.of gets posts m).lookup p = some (.fn f) ∧ f.arity = 1 ∧
      request (build .late env0 gets posts) m p ps ≠
        (respOf ((resolve env0 (wrap env0 f)).beh ps), [((resolve env0 (wrap env0 f)).id, ps)]) ∧
      request (build .early env0 gets posts) m p ps =
        (respOf ((resolve env0 (wrap env0 f)).beh ps), [((resolve env0 (wrap env0 f)).id, ps)]) :=
  ⟨envW, getsW, [], .get, "/a", [], f1, rfl, rfl, by decide, by decide⟩

/-! ------------------------------------------------------------------------------------
  ## Property theorems (C20) — websocket listen loop
------------------------------------------------------------------------------------- -/

namespace Ws

/-- what the property prescribes: one invocation per frame, in arrival order, by the handler that
    is current when the frame arrives, with `json.loads` of the frame -/
def expect (h : Nat) : List Ev → List (Nat × Option JVal)
  | [] => []
  | .redef i :: es => expect i es
  | .frame t :: es => (h, parse t) :: expect h es

/-- every frame is well-formed JSON other than a bare `null`, and the handler returns on it -/
def clean (raises : Nat → JVal → Bool) (h : Nat) : List Ev → Bool
  | [] => true
  | .redef i :: es => clean raises i es
  | .frame t :: es =>
    (match parse t with
     | some j => !isNull j && !raises h j
     | none => false) && clean raises h es

def view (e : Entry) : Nat × Option JVal := (e.1, some e.2)

theorem listen_clean (raises : Nat → JVal → Bool) (s : State) (t : List Char) (j : JVal)
    (ha : s.alive = true) (hp : parse t = some j) (hn : isNull j = false)
    (hr : raises s.handler j = false) :
    listen raises s (.frame t) = (s, [(s.handler, j)]) := by
  unfold listen
  simp [ha, hp, hn, hr]

/-- **ws_exactly_once_in_order_partial**: for every sequence of frames and `.ws.m`
    redefinitions in which every frame is JSON other than a bare `null` and the handler returns,
    the listen loop calls `.ws.m` exactly once per frame, in arrival order, with the decoded
    value, using the definition current at arrival — and is still listening afterwards.
    (Partial: a bare `null` frame is not delivered, see `ws_null_not_delivered`.) -/
theorem ws_exactly_once_in_order_partial (raises : Nat → JVal → Bool) (evs : List Ev) (h : Nat)
    (hc : clean raises h evs = true) :
    (run raises { alive := true, handler := h } evs).1.alive = true ∧
    (run raises { alive := true, handler := h } evs).2.map view = expect h evs := by
  induction evs generalizing h with
  | nil => simp [run, expect]
  | cons e es ih =>
    cases e with
    | redef i =>
      simp only [clean] at hc
      have := ih i hc
      simpa [run, listen, expect] using this
    | frame t =>
      simp only [clean, Bool.and_eq_true] at hc
      obtain ⟨h1, h2⟩ := hc
      cases hp : parse t with
      | none => simp [hp] at h1
      | some j =>
        simp only [hp, Bool.and_eq_true, Bool.not_eq_true'] at h1
        have hl := listen_clean raises { alive := true, handler := h } t j rfl hp h1.1 h1.2
        obtain ⟨i1, i2⟩ := ih h h2
        simp only [run, hl, expect, hp]
        exact ⟨i1, by simp [view, i2]⟩

/-- **ws_at_most_once_in_order**: with no assumption at all (garbage frames, raising handlers,
    bare nulls, a loop that has already stopped): the invocation log is a subsequence of the
    prescribed one — no message is ever handled twice, out of order, by a stale handler or
    with a value other than its decoding. -/
theorem ws_at_most_once_in_order (raises : Nat → JVal → Bool) (evs : List Ev) (s : State) :
    ((run raises s evs).2.map view).Sublist (expect s.handler evs) := by
  induction evs generalizing s with
  | nil => simp [run, expect]
  | cons e es ih =>
    cases e with
    | redef i =>
      have := ih { s with handler := i }
      simpa [run, listen, expect] using this
    | frame t =>
      simp only [run, expect]
      unfold listen
      cases ha : s.alive with
      | false =>
        simp only [Bool.not_false, if_true, List.nil_append]
        exact List.Sublist.cons _ (ih s)
      | true =>
        simp only [Bool.not_true, Bool.false_eq_true, if_false]
        cases hp : parse t with
        | none =>
          simp only [List.nil_append]
          exact List.Sublist.cons _ (ih { s with alive := false })
        | some j =>
          simp only []
          by_cases hn : isNull j = true
          · simp only [hn, if_true, List.nil_append]
            exact List.Sublist.cons _ (ih s)
          · by_cases hr : raises s.handler j = true
            · simp only [hn, hr, if_true, Bool.false_eq_true, if_false, List.cons_append,
                List.nil_append, List.map_cons, view]
              exact List.Sublist.cons₂ _ (ih { s with alive := false })
            · simp only [hn, hr, Bool.false_eq_true, if_false, List.cons_append,
                List.nil_append, List.map_cons, view]
              exact List.Sublist.cons₂ _ (ih s)

/-- the known deviation: a bare `null` frame is swallowed (its decoding `None` is taken for an
    unfilled argument), the next frame is still delivered -/
theorem ws_null_not_delivered :
    (run (fun _ _ => false) { alive := true, handler := 7 }
        [.frame ['n', 'u', 'l', 'l'], .frame ['1']]).2.length = 1 ∧
    (expect 7 [.frame ['n', 'u', 'l', 'l'], .frame ['1']]).length = 2 := by
  decide

/-- non-vacuity: mixed and nested arrays, objects, strings with escapes, redefinition -/
example :
    clean (fun _ _ => false) 1
      [.frame ['[', '1', ',', ' ', '"', 'a', '"', ',', ' ', '[', '2', ']', ']'], .redef 2,
       .frame ['{', '"', 'k', '"', ':', ' ', '"', '\\', 'u', '0', '0', 'e', '9', '"', '}']] = true := by
  decide

end Ws

/-! ------------------------------------------------------------------------------------
  ## Property theorems (C20) — the encoder
------------------------------------------------------------------------------------- -/

mutual
theorem encode_sendable : ∀ v : KVal, sendable v = true → encode true v = some (jsonView v)
  | .pyint _, _ => by simp [encode, jsonView]
  | .npint _, _ => by simp [encode, jsonView]
  | .real _, _ => by simp [encode, jsonView]
  | .str _, _ => by simp [encode, jsonView]
  | .arr xs, h => by
    simp only [sendable] at h
    simp [encode, jsonView, encodeL_sendable xs h]
  | .dict kvs, h => by
    simp only [sendable] at h
    simp [encode, jsonView, encodeD_sendable kvs h]
  | .undef, h => by simp [sendable] at h
theorem encodeL_sendable : ∀ xs : List KVal, sendableL xs = true →
    encodeL true xs = some (jsonViewL xs)
  | [], _ => by simp [encodeL, jsonViewL]
  | v :: t, h => by
    simp only [sendableL, Bool.and_eq_true] at h
    simp [encodeL, jsonViewL, encode_sendable v h.1, encodeL_sendable t h.2]
theorem encodeD_sendable : ∀ kvs : List (String × KVal), sendableD kvs = true →
    encodeD true kvs = some (jsonViewD kvs)
  | [], _ => by simp [encodeD, jsonViewD]
  | (k, v) :: t, h => by
    simp only [sendableD, Bool.and_eq_true] at h
    simp [encodeD, jsonViewD, encode_sendable v h.1, encodeD_sendable t h.2]
end

/-- the pinned tree's encoder (no numpy scalars) fails on `1+1`, and on a list holding it -/
theorem encode_pinned_fails :
    (encode false (.npint 2)).isNone = true ∧
    (encode false (.arr [.pyint 1, .npint 2])).isNone = true ∧
    (encode true (.arr [.pyint 1, .npint 2])).isSome = true := by
  decide

/-- **send_history_at_call**: for every program that amends a dictionary in place and sends it any
    number of times, the frames are the encodings of the dictionary as it was at each send, in
    order — whatever the program does to it afterwards. -/
theorem send_history_at_call (d : List (String × KVal)) (ops : List SOp) :
    sendHistory .atCall d ops = (statesAtSends d ops).map (fun st => send true (.dict st)) := by
  induction ops generalizing d with
  | nil => rfl
  | cons op ops ih =>
    cases op with
    | set k v => simp only [sendHistory, statesAtSends, ih]
    | send => simp only [sendHistory, statesAtSends, ih, List.map_cons]

/-- **deferred_encoding_breaks**: encoding when the io loop gets to the queued send (from the live
    object) violates it: send {n:1}, amend, send {n:2}, amend to 3 — the peer gets {n:3} twice. -/
theorem deferred_encoding_breaks :
    sendHistory .atFlush [] [.set "n" (.pyint 1), .send, .set "n" (.pyint 2), .send, .set "n" (.pyint 3)] ≠
      (statesAtSends [] [.set "n" (.pyint 1), .send, .set "n" (.pyint 2), .send, .set "n" (.pyint 3)]).map
        (fun st => send true (.dict st)) ∧
    sendHistory .atFlush [] [.set "n" (.pyint 1), .send, .set "n" (.pyint 2), .send, .set "n" (.pyint 3)] =
      [send true (.dict [("n", .pyint 3)]), send true (.dict [("n", .pyint 3)])] := by
  decide

/-! ------------------------------------------------------------------------------------
  ## Property theorems (C20) — JSON text level (`WF`: every real is a JSON number literal,
  which is what `repr(float)` produces; helper lemmas in Props/C20Json.lean)
------------------------------------------------------------------------------------- -/

/-- **parse_render**: `json.loads(json.dumps(j)) = j` — for every JSON value (any nesting, any
    Unicode string including escapes and surrogate pairs, any integer). -/
theorem parse_render (j : JVal) (hw : WF j) : parse (render j) = some j := parse_render_wf j hw

/-- **json_roundtrip**: for every sendable Klong value (Python and numpy integers, reals,
    strings, arrays of any nesting, dictionaries), the text `ws(x)` puts on the wire decodes to
    the JSON reading of the value. -/
theorem json_roundtrip (v : KVal) (hs : sendable v = true) (hw : WF (jsonView v)) :
    (send true v).bind parse = some (jsonView v) := by
  simp [send, encode_sendable v hs, parse_render _ hw]

/-- **ws_delivers_rendered**: any sequence of JSON values (none a bare null) pushed as their JSON
    texts is handed to `.ws.m` value by value, once each, in order. -/
theorem ws_delivers_rendered (raises : Nat → JVal → Bool) (h : Nat) (js : List JVal)
    (hw : ∀ j ∈ js, WF j) (hn : ∀ j ∈ js, Ws.isNull j = false)
    (hr : ∀ j ∈ js, raises h j = false) :
    Ws.run raises { alive := true, handler := h } (js.map fun j => .frame (render j)) =
      ({ alive := true, handler := h }, js.map fun j => (h, j)) := by
  induction js with
  | nil => rfl
  | cons j t ih =>
    have hl := Ws.listen_clean raises { alive := true, handler := h } (render j) j rfl
      (parse_render j (hw j (by simp))) (hn j (by simp)) (hr j (by simp))
    have := ih (fun x hx => hw x (by simp [hx])) (fun x hx => hn x (by simp [hx]))
      (fun x hx => hr x (by simp [hx]))
    simp only [List.map_cons, Ws.run, hl, this, List.cons_append, List.nil_append]

/-- non-vacuity: a nested value with a numpy scalar, an escaped string and a dictionary -/
example : sendable (.arr [.npint 2, .str "k", .dict [("k", .arr [.pyint (-3)])]]) = true ∧
    WF (jsonView (.arr [.npint 2, .str "k", .dict [("k", .arr [.pyint (-3)])]])) := by
  refine ⟨by decide, ?_⟩
  simp [jsonView, jsonViewL, jsonViewD, WF, WFL, WFO]

/-- non-vacuity of `WF` on reals: `1.5`, `-2.5e-07` are number literals, `1.` is not -/
example : validNum ['1', '.', '5'] = true ∧ validNum ['-', '2', '.', '5', 'e', '-', '0', '7'] = true ∧
    validNum ['1', '.'] = false := by decide

end Klong.C20
