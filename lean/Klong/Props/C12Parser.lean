/-
  C12 — helper lemmas, part 4: the recursive-descent parser.  One invariant per parser function
  (`Spec`), proved for every amount of fuel by induction: with fuel `8*(|t|+1-i)+rank` a parser
  function started at `i` returns `ok i'` with `i ≤ i' ≤ |t|+1` (strictly advancing where the
  Python loop relies on it) or an error — never `.spin`, never `.outOfFuel` — after at most
  `100*(i'-i) + c` units of work, one unit being `|t|+2` steps (the cost of one look-ahead).
-/
import Klong.Props.C12KgRead
namespace Klong.C12

/-- work bound in units: `Z` without progress, `A*(i'-i) - S` with progress -/
def Bd (S Z i i' q : Nat) : Prop := (i' = i → q ≤ Z) ∧ (i < i' → q + S ≤ 100 * (i' - i))

/-- error bound in units -/
def EB (n i Ze : Nat) : Nat → Prop := fun q => q ≤ 100 * (n + 1 - i) + Ze

/-- a value-returning parser function: inside the text, `None` only at the end of the text, a
    value only after progress -/
def PV (S Z n i : Nat) : Nat → Node → Nat → Prop := fun i' v q =>
  i ≤ i' ∧ i' ≤ n + 1 ∧ (v.isNone = true → n ≤ i') ∧ (v.isNone = false → i < i') ∧ Bd S Z i i' q

/-- returns a proper value, may or may not advance -/
def PN (S Z n i : Nat) : Nat → Node → Nat → Prop := fun i' v q =>
  i ≤ i' ∧ i' ≤ n + 1 ∧ v.isNone = false ∧ Bd S Z i i' q

/-- returns a proper value and advances -/
def PA (n i : Nat) : Nat → Node → Nat → Prop := fun i' v q =>
  i < i' ∧ i' ≤ n + 1 ∧ v.isNone = false ∧ q ≤ 100 * (i' - i)

/-- list-returning, may or may not advance -/
def PL (S Z n i : Nat) : Nat → List Node → Nat → Prop := fun i' _ q =>
  i ≤ i' ∧ i' ≤ n + 1 ∧ Bd S Z i i' q

/-- list-returning, advances -/
def PLA (n i : Nat) : Nat → List Node → Nat → Prop := fun i' _ q =>
  i < i' ∧ i' ≤ n + 1 ∧ q ≤ 100 * (i' - i)

/-- `kgRead` in units: a look-ahead costs at most 8 units -/
def KU (n i : Nat) : Nat → Node → Nat → Prop := fun i' v q =>
  i ≤ i' ∧ i' ≤ n + 1 ∧ (v.isNone = true → n ≤ i') ∧ (v.isNone = false → i < i') ∧ q ≤ 8

macro "parith" : tactic =>
  `(tactic| (simp only [Bd, EB, PV, PN, PA, PL, PLA, KU, need, Node.isNone, mkCall, Bool.false_eq_true, Bool.true_eq_false,
      false_implies, implies_true, forall_const, true_implies, and_true, true_and, reduceCtorEq, Nat.one_mul] at *; (try omega)))

theorem kgRead_units (cfg : Cfg) (t : Text) (fuel i : Nat) (rn ign : Bool) (m : PState)
    (hi : i ≤ t.length + 1) (hf : need t.length i 1 ≤ fuel) :
    SatW (t.length + 2) (KU t.length i) (fun q => q ≤ 8) (kgRead cfg t fuel i rn ign m) := by
  have h := (lexer_spec cfg t fuel).1 i rn ign m hi hf
  cases hr : kgRead cfg t fuel i rn ign m with
  | ok i' v m' st =>
    rw [hr] at h
    obtain ⟨q, h1, h2⟩ := h
    refine ⟨8, ?_, ?_⟩
    · cases hv : v.isNone <;> simp only [KG, hv] at h2 <;> arith
    · cases hv : v.isNone <;> simp only [KG, KU, hv] at h2 ⊢ <;> arith
  | err e m' st =>
    rw [hr] at h
    obtain ⟨q, h1, h2⟩ := h
    refine ⟨8, ?_, Nat.le_refl _⟩
    arith
  | spin st => rw [hr] at h; exact h
  | outOfFuel => rw [hr] at h; exact h

theorem kgReadArray_units (cfg : Cfg) (t : Text) (fuel i : Nat) (ign : Bool) (m : PState)
    (hi : i ≤ t.length + 1) (hf : need t.length i 1 ≤ fuel) :
    SatW (t.length + 2) (KU t.length i) (fun q => q ≤ 8) (kgReadArray cfg t fuel i ign m) := by
  have h := kgRead_units cfg t fuel i false ign m hi hf
  unfold kgReadArray
  split
  · rename_i i' xs m' st heq
    rw [heq] at h
    obtain ⟨q, h1, h2⟩ := h
    exact ⟨q, h1, by simpa [KU, Node.isNone] using h2⟩
  · exact h

theorem satW_onAdverb {α} {W : Nat} {P : Nat → α → Nat → Prop} {E : Nat → Prop} {t : Text} {i : Nat}
    {yes : Nat → List Char → Res α} {no : Unit → Res α}
    (hy : ∀ i' adv, i < i' → i' ≤ t.length → SatW W P E (yes i' adv))
    (hn : SatW W P E (no ())) : SatW W P E (onAdverb t i yes no) := by
  unfold onAdverb
  have hb := peekAdverb_bounds t i
  split
  · rename_i i' adv heq
    rw [heq] at hb
    have := hb.2 (by simp)
    exact hy i' adv this.1 this.2
  · exact hn

theorem satW_readSysComment {α} {W : Nat} {P : Nat → α → Nat → Prop} {E : Nat → Prop} {cfg : Cfg}
    (hg : cfg.guardEmptyMarker = true) {t : Text} {i : Nat} {a : List Char} {m : PState} {k : Nat → Nat → Res α}
    (hi : i ≤ t.length + 1) (hW : t.length + 2 ≤ W) (hE : E 1)
    (hk : ∀ i' st, i ≤ i' → i' ≤ t.length + 1 → st ≤ 2 * (t.length + 2) → SatW W P E (k i' st)) :
    SatW W P E (readSysComment cfg t i a m k) := by
  unfold readSysComment
  split
  · refine satW_err 1 ?_ hE
    omega
  · rename_i j0 hf
    have hfb := findSub_bounds a (t.drop i) 0 j0 hf
    simp only [List.length_drop] at hfb
    have hsome := commentLoop_some cfg hg t a i (t.length + 1) j0 (by omega) (by omega)
    split
    · rename_i hnone
      rw [hnone] at hsome
      simp at hsome
    · rename_i j hj
      have hb := commentLoop_bounds cfg hg t a i (t.length + 1) j0 j hj
      apply hk <;> omega

theorem isOpOrSym_isNone {a : Node} (h : a.isOpOrSym = true) : a.isNone = false := by
  cases a <;> simp_all [Node.isOpOrSym, Node.isNone]

theorem isStr_isNone {a : Node} {s : List Char} (h : a.isStr s = true) : a.isNone = false := by
  cases a <;> simp_all [Node.isStr, Node.isNone]

theorem isSym_isNone {a : Node} (h : a.isSym = true) : a.isNone = false := by
  cases a <;> simp_all [Node.isSym, Node.isNone]

theorem isMonad_isNone {cfg : Cfg} {a : Node} (h : a.isMonad cfg = true) : a.isNone = false := by
  cases a <;> simp_all [Node.isMonad, Node.isNone]

theorem argsAhead_lt {t : Text} {i : Nat} (h : argsAhead t i = true) : i < t.length := by
  simp only [argsAhead, Bool.or_eq_true] at h
  rcases h with h | h
  · exact cmatch_lt h
  · have := cmatch2_lt h; omega

/-- the invariant of every parser function for a given amount of fuel -/
structure Spec (cfg : Cfg) (t : Text) (fuel : Nat) : Prop where
  prog : ∀ i ign m, i ≤ t.length + 1 → need t.length i 5 ≤ fuel →
    SatW (t.length + 2) (PL 0 2 t.length i) (EB t.length i 40) (prog cfg t fuel i ign m)
  progLoop : ∀ i ign acc m, i ≤ t.length + 1 → need t.length i 4 ≤ fuel →
    SatW (t.length + 2) (PL 1 1 t.length i) (EB t.length i 30) (progLoop cfg t fuel i ign acc m)
  expr : ∀ i ign m, i ≤ t.length + 1 → need t.length i 3 ≤ fuel →
    SatW (t.length + 2) (PV 12 10 t.length i) (EB t.length i 20) (expr cfg t fuel i ign m)
  exprLoop : ∀ i a ii aa ign m, i ≤ ii → ii ≤ t.length + 1 → a.isNone = false → (aa.isNone = false → i < ii) →
    need t.length i 4 ≤ fuel →
    SatW (t.length + 2) (PN 0 1 t.length i) (EB t.length i 20) (exprLoop cfg t fuel i a ii aa ign m)
  readFn : ∀ i m, i ≤ t.length + 1 → need t.length i 6 ≤ fuel →
    SatW (t.length + 2) (PA t.length i) (EB t.length i 50) (readFn cfg t fuel i m)
  applyAdverbs : ∀ i a aa ar dy dv m, i ≤ t.length + 1 → need t.length i 4 ≤ fuel →
    SatW (t.length + 2) (PN 0 11 t.length i) (EB t.length i 30) (applyAdverbs cfg t fuel i a aa ar dy dv m)
  readFnArgs : ∀ i m, i ≤ t.length + 1 → need t.length i 5 ≤ fuel →
    SatW (t.length + 2) (PLA t.length i) (EB t.length i 40) (readFnArgs cfg t fuel i m)
  fnArgsLoop : ∀ i k acc m, i ≤ t.length + 1 → need t.length i 4 ≤ fuel →
    SatW (t.length + 2) (PLA t.length i) (EB t.length i 30) (fnArgsLoop cfg t fuel i k acc m)
  readCond : ∀ i m, i ≤ t.length + 1 → need t.length i 4 ≤ fuel →
    SatW (t.length + 2) (PA t.length i) (EB t.length i 30) (readCond cfg t fuel i m)
  readExprArray : ∀ i m, i ≤ t.length + 1 → need t.length i 5 ≤ fuel →
    SatW (t.length + 2) (PL 0 2 t.length i) (EB t.length i 40) (readExprArray cfg t fuel i m)
  exprArrayLoop : ∀ i acc m, i ≤ t.length + 1 → need t.length i 4 ≤ fuel →
    SatW (t.length + 2) (PL 1 1 t.length i) (EB t.length i 30) (exprArrayLoop cfg t fuel i acc m)
  factor : ∀ i ign m, i ≤ t.length + 1 → need t.length i 2 ≤ fuel →
    SatW (t.length + 2) (PV 24 9 t.length i) (EB t.length i 20) (factor cfg t fuel i ign m)

theorem spec_zero (cfg : Cfg) (t : Text) : Spec cfg t 0 := by
  constructor <;> (intros; simp only [need] at *; omega)

/-! ### one step of fuel, function by function -/

theorem step_prog {cfg : Cfg} {t : Text} {fuel : Nat} (ih : Spec cfg t fuel) :
    ∀ i ign m, i ≤ t.length + 1 → need t.length i 5 ≤ fuel + 1 →
    SatW (t.length + 2) (PL 0 2 t.length i) (EB t.length i 40) (prog cfg t (fuel + 1) i ign m) := by
  intro i ign m hi hf
  rw [prog]
  refine satW_addSteps 1 (by omega) ?_
  refine satW_mono (ih.progLoop i ign [] m hi (by parith)) ?_ ?_
  · intro i' v q h
    parith
  · intro q h
    parith

theorem step_progLoop {cfg : Cfg} {t : Text} {fuel : Nat} (ih : Spec cfg t fuel) :
    ∀ i ign acc m, i ≤ t.length + 1 → need t.length i 4 ≤ fuel + 1 →
    SatW (t.length + 2) (PL 1 1 t.length i) (EB t.length i 30) (progLoop cfg t (fuel + 1) i ign acc m) := by
  intro i ign acc m hi hf
  rw [progLoop]
  split
  · rename_i hlt
    refine satW_bind (ih.expr i ign m hi (by parith)) (fun q h => by parith) ?_
    intro i1 v m1 q1 h
    split
    · -- continue
      rename_i hc
      have hprog : i < i1 := by
        cases hv : v.isNone
        · simp only [PV, hv] at h; parith
        · simp only [PV, hv] at h; parith
      rw [if_pos hprog]
      refine satW_addSteps 1 (by omega) ?_
      refine satW_mono (ih.progLoop i1 ign acc m1 (by parith) (by parith)) ?_ ?_
      · intro i' v' q h'
        parith
      · intro q h'
        parith
    · rename_i hc
      simp only [Bool.or_eq_true, not_or, Bool.not_eq_true] at hc
      simp only [PV, hc.1] at h
      refine satW_bind (kgRead_units cfg t fuel i1 false ign m1 (by parith) (by parith)) (fun q h' => by parith) ?_
      intro ii c m2 q2 h2
      split
      · refine satW_ok 1 (by omega) ?_
        parith
      · rename_i hsemi
        simp only [Bool.not_eq_true', Bool.not_eq_false] at hsemi
        have hcn := isStr_isNone hsemi
        simp only [KU, hcn] at h2
        rw [if_pos (by parith)]
        refine satW_addSteps 1 (by omega) ?_
        refine satW_mono (ih.progLoop ii ign (v :: acc) m2 (by parith) (by parith)) ?_ ?_
        · intro i' v' q h'
          parith
        · intro q h'
          parith
  · refine satW_ok 1 (by omega) ?_
    parith

theorem step_expr {cfg : Cfg} {t : Text} {fuel : Nat} (ih : Spec cfg t fuel) :
    ∀ i ign m, i ≤ t.length + 1 → need t.length i 3 ≤ fuel + 1 →
    SatW (t.length + 2) (PV 12 10 t.length i) (EB t.length i 20) (expr cfg t (fuel + 1) i ign m) := by
  intro i ign m hi hf
  rw [expr]
  refine satW_bind (ih.factor i ign m hi (by parith)) (fun q h => by parith) ?_
  intro i1 a m1 q1 h
  split
  · refine satW_ok 1 (by omega) ?_
    cases hv : a.isNone <;> simp only [PV, hv] at h ⊢ <;> parith
  · rename_i hc
    simp only [Bool.or_eq_true, not_or, Bool.not_eq_true] at hc
    simp only [PV, hc.1] at h
    refine satW_bind (kgRead_units cfg t fuel i1 false ign m1 (by parith) (by parith)) (fun q h' => by parith) ?_
    intro ii aa m2 q2 h2
    refine satW_addSteps 1 (by omega) ?_
    refine satW_mono (ih.exprLoop i1 a ii aa ign m2 (by parith) (by parith) hc.1 (by intro hv; simp only [KU, hv] at h2; parith) (by parith)) ?_ ?_
    · intro i' v' q h'
      simp only [PN] at h'
      simp only [PV, h'.2.2.1]
      parith
    · intro q h'
      parith

end Klong.C12
