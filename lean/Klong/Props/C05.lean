/-
  C05 — compiled and interpreted execution of an expression are indistinguishable.

  Property theorems (numpy backend tables as regenerated from the checked tree):
  * `compiled_value_is_interp_value` / `compiled_eq_interp`: for every expression (no depth bound), every
    compile-time admission test, every binding at call time with `Adm`: the compiled callable raises (the
    call site then takes the interpreter's answer) or returns exactly the interpreter's value.
  * `params_match_var_syms`: the parameters of the generated function are `_v0 … _v(n-1)` in the order of
    `var_syms` (so positional passing binds every parameter to its own variable).
  * `system_eq_interp`, `top_eq_interp`: the interpreter with the compiled fast path at every operator and
    adverb node, for ANY content of the memo (code compiled earlier under any other bindings: rebinding
    histories), equals the interpreter without it.
  * `pinned_*`: the three deviations of the pre-repair code generation, as `decide`d witnesses.
-/
import Klong.Model.C05
namespace Klong.C05
open Tables

/-! ## small helpers -/

theorem wrap64_of_inRange {n : Int} (h : inRange n = true) : wrap64 n = n := by
  unfold inRange at h
  simp at h
  obtain ⟨ha, hb⟩ := h
  unfold minI64 at ha
  unfold maxI64 at hb
  have h1 : 0 ≤ n - minI64 := by unfold minI64; omega
  have h2 : n - minI64 < 18446744073709551616 := by unfold minI64; omega
  unfold wrap64
  rw [Int.emod_eq_of_lt h1 h2]
  omega

theorem scNp_eq_exact (op : AOp) (a b : Sc)
    (ha : scInRange a = true) (hb : scInRange b = true) (hr : scInRange (scExact op a b) = true) :
    scNp op a b = some (scExact op a b) := by
  cases a <;> cases b <;> simp_all [scNp, scExact, scInRange, wrap64_of_inRange]

theorem scNegNp_eq_exact (a : Sc) (ha : scInRange a = true) (hr : scInRange (scNegExact a) = true) :
    scNegNp a = some (scNegExact a) := by
  cases a <;> simp_all [scNegNp, scNegExact, scInRange, wrap64_of_inRange]

theorem numBin_scalars (f : Sc → Sc → Option Sc) (x y : Sc) :
    numBin f [] [x] [] [y] = (f x y).map NV.sc := by
  cases h : f x y <;> simp [numBin, padShape, bshape, bdata, mkNum, h]

theorem npBin_scalars (op : AOp) (x y : Sc) :
    npBin op (.sc x) (.sc y) = optRes ((scNp op x y).map NV.sc) := by
  simp [npBin, genBin, numBin_scalars]

theorem bind_ok {r : Res} {f : NV → Res} {v : NV} (h : r.bind f = .ok v) :
    ∃ a, r = .ok a ∧ f a = .ok v := by
  cases r with
  | ok a => exact ⟨a, rfl, h⟩
  | raised => simp [Res.bind] at h

/-! ## node lemmas: each generated operation against the verb the interpreter applies -/

theorem pyBin_eq_npBin (o : AOp) (a b : NV)
    (h : match a, b with
      | .sc x, .sc y => (scInRange x && scInRange y && scInRange (scExact o x y)) = true
      | _, _ => True) :
    pyBin o a b = npBin o a b := by
  cases a <;> cases b <;> simp [pyBin] at h ⊢
  rename_i x y
  rw [npBin_scalars, scNp_eq_exact o x y h.1.1 h.1.2 h.2]
  rfl

theorem binop_node (op : String) (t : String × String × String) (f : NV → NV → Res) (a b v : NV)
    (hop : op ∈ arithOps) (ht : numpyTables.binop.lookup op = some t) (hf : binSem t = some f)
    (hadm : dyadAdm op a b = true) (h : f a b = .ok v) : kgDyad op a b = .ok v := by
  simp [arithOps] at hop
  rcases hop with rfl | rfl | rfl | rfl | rfl <;>
    simp [numpyTables, numpyBinop, List.lookup] at ht <;> subst ht <;>
    simp [binSem] at hf <;> subst hf
  · simpa [kgDyad] using h
  · rw [← h]; simp only [kgDyad]; simp
    exact (pyBin_eq_npBin .mul a b (by
      cases a <;> cases b <;> simp_all [dyadAdm, aopOf])).symm
  · rw [← h]; simp only [kgDyad]; simp
    exact (pyBin_eq_npBin .add a b (by
      cases a <;> cases b <;> simp_all [dyadAdm, aopOf])).symm
  · rw [← h]; simp only [kgDyad]; simp
    exact (pyBin_eq_npBin .sub a b (by
      cases a <;> cases b <;> simp_all [dyadAdm, aopOf])).symm
  · simpa [kgDyad] using h

theorem cmp_node (op : String) (t : String × String × String) (f : NV → NV → Res) (a b v : NV)
    (hop : op ∈ cmpOps) (ht : numpyTables.cmp.lookup op = some t) (hf : binSem t = some f)
    (h : f a b = .ok v) : kgDyad op a b = .ok v := by
  simp [cmpOps] at hop
  rcases hop with rfl | rfl | rfl <;>
    simp [numpyTables, numpyCmp, List.lookup] at ht <;> subst ht <;>
    simp [binSem] at hf <;> subst hf <;>
    simpa [kgDyad] using h

theorem negate_node (f : NV → Res) (a v : NV)
    (hf : unSem numpyTables.negate = some f) (h : f a = .ok v) :
    kgMonad negateOp a = .ok v := by
  simp [numpyTables, numpyNegate, unSem] at hf
  subst hf
  simpa [negateOp, kgMonad] using h

theorem reduceInit_over (o : AOp) (a v : NV) (h : npReduceInit o a = .ok v) :
    (if a == NV.unmod then Res.ok NV.unmod else if isAtom a then Res.ok a else ufuncReduce o a) = .ok v := by
  cases a <;> simp_all [npReduceInit, isAtom]
  all_goals (split at h <;> simp_all)

theorem reduceNumeric_over (o : AOp) (a v : NV) (h : npReduceNumeric o a = .ok v) :
    (if a == NV.unmod then Res.ok NV.unmod else if isAtom a then Res.ok a else overMinMax o a) = .ok v := by
  cases a <;> simp_all [npReduceNumeric, npReduceInit, isAtom, overMinMax, ufuncReduce]
  all_goals (split at h <;> simp_all)

theorem reduce_node (op : String) (t : String × String) (f : NV → Res) (a v : NV)
    (hop : op ∈ reduceScanOps) (ht : numpyTables.reduce.lookup op = some t) (hf : unSem t = some f)
    (h : f a = .ok v) : kgOver op a = .ok v := by
  simp [reduceScanOps] at hop
  rcases hop with rfl | rfl | rfl | rfl <;>
    simp [numpyTables, numpyReduce, List.lookup] at ht <;> subst ht <;>
    simp [unSem] at hf <;> subst hf
  · have := reduceNumeric_over .min a v h; simpa [kgOver] using this
  · have := reduceInit_over .mul a v h; simpa [kgOver] using this
  · have := reduceInit_over .add a v h; simpa [kgOver] using this
  · have := reduceNumeric_over .max a v h; simpa [kgOver] using this

theorem accumulate_scan (o : AOp) (a v : NV) (h : npAccumulate o a = .ok v) :
    (if a == NV.unmod then Res.ok NV.unmod else if isAtom a then Res.ok a else ufuncAccumulate o a) = .ok v := by
  cases a <;> simp_all [npAccumulate, isAtom]
  all_goals (split at h <;> simp_all)

theorem scan_node (op : String) (t : String × String) (f : NV → Res) (a v : NV)
    (ht : numpyTables.scan.lookup op = some t) (hf : unSem t = some f)
    (h : f a = .ok v) : kgScan op a = .ok v := by
  have hop : op = "*" ∨ op = "+" := by
    simp only [numpyTables, numpyScan, List.lookup] at ht
    split at ht
    · left; simp_all
    · split at ht
      · right; simp_all
      · simp at ht
  rcases hop with rfl | rfl <;>
    simp [numpyTables, numpyScan, List.lookup] at ht <;> subst ht <;>
    simp [unSem] at hf <;> subst hf
  · have := accumulate_scan .mul a v h; simpa [kgScan] using this
  · have := accumulate_scan .add a v h; simpa [kgScan] using this

/-! ## `_ast_to_ir`: variable numbering -/

theorem findRef_get {refs : List String} {s : String} {i : Nat} (h : findRef refs s = some i) :
    refs[i]? = some s := by
  induction refs generalizing i with
  | nil => simp [findRef] at h
  | cons x r ih =>
    simp only [findRef] at h
    split at h
    · rename_i hx
      simp at h
      subst h
      simp [hx]
    · cases hr : findRef r s with
      | none => simp [hr] at h
      | some j =>
        simp [hr] at h
        subst h
        simpa using ih hr

theorem findRef_lt {refs : List String} {s : String} {i : Nat} (h : findRef refs s = some i) :
    i < refs.length := by
  have := findRef_get h
  exact (List.getElem?_eq_some_iff.mp this).1

/-- `var_refs` only grows -/
theorem astToIR_extends (admits : String → Bool) :
    ∀ (e : Expr) (refs refs' : List String) (ir : IR),
      astToIR admits e refs = some (ir, refs') → ∃ ext, refs' = refs ++ ext := by
  intro e
  induction e with
  | lit v t => intro refs refs' ir h; simp [astToIR] at h; exact ⟨[], by simp [h.2]⟩
  | var s =>
    intro refs refs' ir h
    simp only [astToIR] at h
    split at h
    · split at h
      · simp at h; exact ⟨[], by simp [h.2]⟩
      · simp at h; exact ⟨[s], h.2.symm⟩
    · simp at h
  | dyad op l r ihl ihr =>
    intro refs refs' ir h
    simp only [astToIR] at h
    split at h
    · simp at h
    · rename_i li r1 hl
      split at h
      · simp at h
      · rename_i ri r2 hr
        obtain ⟨e1, h1⟩ := ihl _ _ _ hl
        obtain ⟨e2, h2⟩ := ihr _ _ _ hr
        have : refs' = r2 := by
          split at h
          · simp at h; exact h.2.symm
          · split at h
            · simp at h; exact h.2.symm
            · simp at h
        exact ⟨e1 ++ e2, by rw [this, h2, h1, List.append_assoc]⟩
  | monad op x ih =>
    intro refs refs' ir h
    simp only [astToIR] at h
    split at h
    · split at h
      · rename_i xi r1 hx
        simp at h
        obtain ⟨e1, h1⟩ := ih _ _ _ hx
        exact ⟨e1, by rw [← h.2, h1]⟩
      · simp at h
    · simp at h
  | over op x ih =>
    intro refs refs' ir h
    simp only [astToIR] at h
    split at h
    · split at h
      · rename_i xi r1 hx
        simp at h
        obtain ⟨e1, h1⟩ := ih _ _ _ hx
        exact ⟨e1, by rw [← h.2, h1]⟩
      · simp at h
    · simp at h
  | scan op x ih =>
    intro refs refs' ir h
    simp only [astToIR] at h
    split at h
    · split at h
      · rename_i xi r1 hx
        simp at h
        obtain ⟨e1, h1⟩ := ih _ _ _ hx
        exact ⟨e1, by rw [← h.2, h1]⟩
      · simp at h
    · simp at h

/-- `_collect_params` lists the parameters in the order `_ast_to_ir` numbered them -/
theorem collect_range (admits : String → Bool) :
    ∀ (e : Expr) (refs refs' : List String) (ir : IR),
      astToIR admits e refs = some (ir, refs') →
      collect ir (List.range refs.length) = List.range refs'.length := by
  intro e
  induction e with
  | lit v t => intro refs refs' ir h; simp [astToIR] at h; simp [← h.1, ← h.2, collect]
  | var s =>
    intro refs refs' ir h
    simp only [astToIR] at h
    split at h
    · split at h
      · rename_i i hi
        simp at h
        have := findRef_lt hi
        simp [← h.1, ← h.2, collect, this]
      · simp at h
        simp [← h.1, ← h.2, collect, List.range_succ]
    · simp at h
  | dyad op l r ihl ihr =>
    intro refs refs' ir h
    simp only [astToIR] at h
    split at h
    · simp at h
    · rename_i li r1 hl
      split at h
      · simp at h
      · rename_i ri r2 hr
        have h1 := ihl _ _ _ hl
        have h2 := ihr _ _ _ hr
        split at h
        · simp at h; simp [← h.1, ← h.2, collect, h1, h2]
        · split at h
          · simp at h; simp [← h.1, ← h.2, collect, h1, h2]
          · simp at h
  | monad op x ih =>
    intro refs refs' ir h
    simp only [astToIR] at h
    split at h
    · split at h
      · rename_i xi r1 hx
        simp at h
        simp [← h.1, ← h.2, collect, ih _ _ _ hx]
      · simp at h
    · simp at h
  | over op x ih =>
    intro refs refs' ir h
    simp only [astToIR] at h
    split at h
    · split at h
      · rename_i xi r1 hx
        simp at h
        simp [← h.1, ← h.2, collect, ih _ _ _ hx]
      · simp at h
    · simp at h
  | scan op x ih =>
    intro refs refs' ir h
    simp only [astToIR] at h
    split at h
    · split at h
      · rename_i xi r1 hx
        simp at h
        simp [← h.1, ← h.2, collect, ih _ _ _ hx]
      · simp at h
    · simp at h

/-- **parameter order**: the generated `def _expr(_v0, …)` takes its parameters in the order of
    `var_syms`, for either backend's tables -/
theorem params_match_var_syms (T : BTables) (admits : String → Bool) (e : Expr) (c : Compiled)
    (h : compile T admits e = some c) : c.params = List.range c.varSyms.length := by
  simp only [compile] at h
  split at h
  · simp at h
  · rename_i ir refs hir
    split at h
    · simp at h
    · split at h
      · simp at h
      · simp at h
        subst h
        simpa using collect_range admits e [] refs ir hir

/-! ## the core: value of the generated expression = value the interpreter computes -/

theorem admTree_dyad {env : Env} {op : String} {l r : Expr} (h : admTree env (.dyad op l r) = true) :
    admNode env (.dyad op l r) = true ∧ admTree env l = true ∧ admTree env r = true := by
  simp [admTree] at h; exact ⟨h.1.1, h.1.2, h.2⟩

theorem core (admits : String → Bool) (env : Env) (ρ : Nat → Res) :
    ∀ (e : Expr) (refs refs' : List String) (ir : IR) (py : PyExpr),
      astToIR admits e refs = some (ir, refs') →
      irToPy numpyTables ir = some py →
      (∀ i s, refs'[i]? = some s → ρ i = envGet env s) →
      admTree env e = true →
      ∀ v, py.eval ρ = .ok v → Interp.eval env e = .ok v := by
  intro e
  induction e with
  | lit x t =>
    intro refs refs' ir py h hpy _ _ v hv
    simp [astToIR] at h
    simp [← h.1, irToPy] at hpy
    subst hpy
    simp only [PyExpr.eval] at hv
    split at hv
    · simp at hv
    · simpa [Interp.eval] using hv
  | var s =>
    intro refs refs' ir py h hpy hρ _ v hv
    simp only [astToIR] at h
    split at h
    · split at h
      · rename_i i hi
        simp at h
        simp [← h.1, irToPy] at hpy
        subst hpy
        have := hρ i s (by rw [← h.2]; exact findRef_get hi)
        simpa [PyExpr.eval, Interp.eval, this] using hv
      · simp at h
        simp [← h.1, irToPy] at hpy
        subst hpy
        have := hρ refs.length s (by rw [← h.2]; simp)
        simpa [PyExpr.eval, Interp.eval, this] using hv
    · simp at h
  | dyad op l r ihl ihr =>
    intro refs refs' ir py h hpy hρ hadm v hv
    obtain ⟨hnode, hal, har⟩ := admTree_dyad hadm
    simp only [astToIR] at h
    split at h
    · simp at h
    · rename_i li r1 hl
      split at h
      · simp at h
      · rename_i ri r2 hr
        obtain ⟨e2, he2⟩ := astToIR_extends admits r r1 r2 ri hr
        have hr2 : refs' = r2 := by
          split at h
          · simp at h; exact h.2.symm
          · split at h
            · simp at h; exact h.2.symm
            · simp at h
        subst hr2
        have hρ1 : ∀ i s, r1[i]? = some s → ρ i = envGet env s := by
          intro i s hi
          apply hρ i s
          rw [he2]
          have hlt := (List.getElem?_eq_some_iff.mp hi).1
          rw [List.getElem?_append_left hlt]
          exact hi
        -- which IR node
        split at h
        · -- binop
          rename_i hop
          simp at h
          simp only [← h, irToPy] at hpy
          split at hpy
          · rename_i l' r' t hl' hr' ht
            simp at hpy
            subst hpy
            simp only [PyExpr.eval] at hv
            split at hv
            · simp at hv
            · rename_i f hf
              obtain ⟨a, ha, hv⟩ := bind_ok hv
              obtain ⟨b, hb, hv⟩ := bind_ok hv
              have ia := ihl _ _ _ _ hl hl' hρ1 hal a ha
              have ib := ihr _ _ _ _ hr hr' hρ har b hb
              simp only [Interp.eval, ia, ib, Res.bind]
              apply binop_node op t f a b v hop ht hf _ hv
              simpa only [admNode, ia, ib, resVal] using hnode
          · simp at hpy
        · split at h
          · -- cmp
            rename_i hop
            simp at h
            simp only [← h, irToPy] at hpy
            split at hpy
            · rename_i l' r' t hl' hr' ht
              simp at hpy
              subst hpy
              simp only [PyExpr.eval] at hv
              split at hv
              · simp at hv
              · rename_i f hf
                obtain ⟨a, ha, hv⟩ := bind_ok hv
                obtain ⟨b, hb, hv⟩ := bind_ok hv
                have ia := ihl _ _ _ _ hl hl' hρ1 hal a ha
                have ib := ihr _ _ _ _ hr hr' hρ har b hb
                simp only [Interp.eval, ia, ib, Res.bind]
                exact cmp_node op t f a b v hop ht hf hv
            · simp at hpy
          · simp at h
  | monad op x ih =>
    intro refs refs' ir py h hpy hρ hadm v hv
    simp only [astToIR] at h
    split at h
    · rename_i hop
      split at h
      · rename_i xi r1 hx
        simp at h
        obtain ⟨rfl, rfl⟩ := h
        simp only [irToPy] at hpy
        split at hpy
        · rename_i x' hx'
          simp at hpy
          subst hpy
          simp only [PyExpr.eval] at hv
          split at hv
          · simp at hv
          · rename_i f hf
            obtain ⟨a, ha, hv⟩ := bind_ok hv
            simp [admTree] at hadm
            have ia := ih _ _ _ _ hx hx' hρ hadm.2 a ha
            simp only [Interp.eval, ia, Res.bind]
            rw [hop]
            exact negate_node f a v hf hv
        · simp at hpy
      · simp at h
    · simp at h
  | over op x ih =>
    intro refs refs' ir py h hpy hρ hadm v hv
    simp only [astToIR] at h
    split at h
    · rename_i hop
      split at h
      · rename_i xi r1 hx
        simp at h
        obtain ⟨rfl, rfl⟩ := h
        simp only [irToPy] at hpy
        split at hpy
        · rename_i x' t hx' ht
          simp at hpy
          subst hpy
          simp only [PyExpr.eval] at hv
          split at hv
          · simp at hv
          · rename_i f hf
            obtain ⟨a, ha, hv⟩ := bind_ok hv
            simp [admTree] at hadm
            have ia := ih _ _ _ _ hx hx' hρ hadm.2 a ha
            simp only [Interp.eval, ia, Res.bind]
            exact reduce_node op t f a v hop ht hf hv
        · simp at hpy
      · simp at h
    · simp at h
  | scan op x ih =>
    intro refs refs' ir py h hpy hρ hadm v hv
    simp only [astToIR] at h
    split at h
    · rename_i hop
      split at h
      · rename_i xi r1 hx
        simp at h
        obtain ⟨rfl, rfl⟩ := h
        simp only [irToPy] at hpy
        split at hpy
        · rename_i x' t hx' ht
          simp at hpy
          subst hpy
          simp only [PyExpr.eval] at hv
          split at hv
          · simp at hv
          · rename_i f hf
            obtain ⟨a, ha, hv⟩ := bind_ok hv
            simp [admTree] at hadm
            have ia := ih _ _ _ _ hx hx' hρ hadm.2 a ha
            simp only [Interp.eval, ia, Res.bind]
            exact scan_node op t f a v ht hf hv
        · simp at hpy
      · simp at h
    · simp at h

/-! ## the call: positional arguments reach their own parameters -/

theorem fetch_spec (env : Env) :
    ∀ (syms : List String) (args : List NV), fetch env syms = some args →
      args.length = syms.length ∧
        ∀ (i : Nat) (s : String), syms[i]? = some s → ∃ v, args[i]? = some v ∧ env s = some v := by
  intro syms
  induction syms with
  | nil => intro args h; simp [fetch] at h; subst h; simp
  | cons s r ih =>
    intro args h
    simp only [fetch] at h
    split at h
    · rename_i v vs hv hvs
      simp at h
      subst h
      obtain ⟨hl, hg⟩ := ih vs hvs
      refine ⟨by simp [hl], ?_⟩
      intro i t hi
      cases i with
      | zero => simp at hi; subst hi; exact ⟨v, by simp, hv⟩
      | succ j => simp at hi; simpa using hg j t hi
    · simp at h

theorem lookupArg_range' :
    ∀ (args : List NV) (k i : Nat) (v : NV), args[i]? = some v →
      lookupArg ((List.range' k args.length).zip args) (k + i) = .ok v := by
  intro args
  induction args with
  | nil => intro k i v h; simp at h
  | cons a r ih =>
    intro k i v h
    cases i with
    | zero =>
      simp at h; subst h
      simp [List.range', lookupArg]
    | succ j =>
      simp at h
      have := ih (k + 1) j v h
      simp only [List.length_cons, List.range'_succ, List.zip_cons_cons, lookupArg]
      have hne : ¬ (k = k + (j + 1)) := by omega
      simp only [hne, ↓reduceIte]
      have e : k + 1 + j = k + (j + 1) := by omega
      rw [← e]
      exact this

/-- **the compiled callable returns the interpreter's value**: whatever the variables were bound to
    when the expression was compiled (`admits`), whatever they are bound to now (`env`, within `Adm`),
    if the generated function returns `v` then the tree-walking interpreter returns `v` -/
theorem compiled_value_is_interp_value (admits : String → Bool) (callOK : NV → Bool) (env : Env) (e : Expr)
    (c : Compiled) (hc : compile numpyTables admits e = some c) (hadm : Adm env e = true) :
    ∀ v, runCompiled callOK c env = .ok v → Interp.eval env e = .ok v := by
  intro v hv
  have hp := params_match_var_syms numpyTables admits e c hc
  simp only [compile] at hc
  split at hc
  · simp at hc
  · rename_i ir refs hir
    split at hc
    · simp at hc
    · split at hc
      · simp at hc
      · rename_i py hpy
        simp at hc
        subst hc
        simp only [runCompiled] at hv
        split at hv
        · simp at hv
        · rename_i args hargs
          obtain ⟨hlen, hget⟩ := fetch_spec env refs args hargs
          split at hv
          · simp at hv
          · split at hv
            · simp at hv
            · simp [Adm] at hadm
              apply core admits env _ e [] refs ir py hir hpy _ hadm.2 v hv
              intro i s hi
              obtain ⟨w, hw, hes⟩ := hget i s hi
              simp only at hp
              rw [hp, ← hlen, List.range_eq_range']
              have := lookupArg_range' args 0 i w hw
              simp at this
              simp [this, envGet, hes]

/-- **C05, the compiled callable**: what the call site observes — the compiled value, or the
    interpreter's when the compiled function raises — is what the interpreter alone gives -/
theorem compiled_eq_interp (admits : String → Bool) (callOK : NV → Bool) (env : Env) (e : Expr)
    (c : Compiled) (hc : compile numpyTables admits e = some c) (hadm : Adm env e = true) :
    obs (orElse (runCompiled callOK c env) (Interp.eval env e)) = obs (Interp.eval env e) := by
  cases h : runCompiled callOK c env with
  | raised => simp [orElse]
  | ok v =>
    rw [compiled_value_is_interp_value admits callOK env e c hc hadm v h]
    simp [orElse]

/-! ## the whole interpreter with the fast path, for any memo content (rebinding histories) -/

/-- every memoised callable was produced by `compile_expr` for that node, under some bindings -/
def MemoOK (memo : Expr → Option Compiled) : Prop :=
  ∀ e c, memo e = some c → ∃ admits, compile numpyTables admits e = some c

theorem adm_dyad {env : Env} {op : String} {l r : Expr} (h : Adm env (.dyad op l r) = true) :
    Adm env l = true ∧ Adm env r = true := by
  simp [Adm, vars, admTree] at h ⊢
  exact ⟨⟨h.1.1, h.2.1.2⟩, ⟨h.1.2, h.2.2⟩⟩

theorem adm_monad {env : Env} {op : String} {x : Expr} (h : Adm env (.monad op x) = true) :
    Adm env x = true := by
  simp [Adm, vars, admTree] at h ⊢; exact ⟨h.1, h.2.2⟩

theorem adm_over {env : Env} {op : String} {x : Expr} (h : Adm env (.over op x) = true) :
    Adm env x = true := by
  simp [Adm, vars, admTree] at h ⊢; exact ⟨h.1, h.2.2⟩

theorem adm_scan {env : Env} {op : String} {x : Expr} (h : Adm env (.scan op x) = true) :
    Adm env x = true := by
  simp [Adm, vars, admTree] at h ⊢; exact ⟨h.1, h.2.2⟩

theorem orElse_compiled (callOK : NV → Bool) (memo : Expr → Option Compiled) (hm : MemoOK memo)
    (env : Env) (e : Expr) (hadm : Adm env e = true) (c : Compiled) (hc : memo e = some c) (slow : Res)
    (hs : slow = Interp.eval env e) : orElse (runCompiled callOK c env) slow = Interp.eval env e := by
  obtain ⟨admits, hcomp⟩ := hm e c hc
  cases h : runCompiled callOK c env with
  | raised => simp [orElse, hs]
  | ok v =>
    rw [compiled_value_is_interp_value admits callOK env e c hcomp hadm v h]
    simp [orElse]

/-- **C05, every evaluation position and every rebinding history**: the interpreter that tries
    memoised compiled code at every operator and adverb node — code compiled at any earlier time under
    any bindings — computes exactly what the interpreter without a compiler computes -/
theorem system_eq_interp (callOK : NV → Bool) (memo : Expr → Option Compiled) (hm : MemoOK memo) (env : Env) :
    ∀ e, Adm env e = true → Sys.eval callOK memo env e = Interp.eval env e := by
  intro e
  induction e with
  | lit v t => intro _; simp [Sys.eval, Interp.eval]
  | var s => intro _; simp [Sys.eval, Interp.eval]
  | dyad op l r ihl ihr =>
    intro hadm
    obtain ⟨hl, hr⟩ := adm_dyad hadm
    have hs : ((Sys.eval callOK memo env r).bind fun b =>
        (Sys.eval callOK memo env l).bind fun a => kgDyad op a b) = Interp.eval env (.dyad op l r) := by
      simp [Interp.eval, ihl hl, ihr hr]
    simp only [Sys.eval]
    split
    · rename_i c hc
      exact orElse_compiled callOK memo hm env _ hadm c hc _ hs
    · exact hs
  | monad op x ih =>
    intro hadm
    have hs : (Sys.eval callOK memo env x).bind (kgMonad op) = Interp.eval env (.monad op x) := by
      simp [Interp.eval, ih (adm_monad hadm)]
    simp only [Sys.eval]
    split
    · rename_i c hc
      exact orElse_compiled callOK memo hm env _ hadm c hc _ hs
    · exact hs
  | over op x ih =>
    intro hadm
    have hs : (Sys.eval callOK memo env x).bind (kgOver op) = Interp.eval env (.over op x) := by
      simp [Interp.eval, ih (adm_over hadm)]
    simp only [Sys.eval]
    split
    · rename_i c hc
      exact orElse_compiled callOK memo hm env _ hadm c hc _ hs
    · exact hs
  | scan op x ih =>
    intro hadm
    have hs : (Sys.eval callOK memo env x).bind (kgScan op) = Interp.eval env (.scan op x) := by
      simp [Interp.eval, ih (adm_scan hadm)]
    simp only [Sys.eval]
    split
    · rename_i c hc
      exact orElse_compiled callOK memo hm env _ hadm c hc _ hs
    · exact hs

/-- the top-level call site (`__call__`, per-text cache) on top of `system_eq_interp` -/
theorem top_eq_interp (callOK : NV → Bool) (memo : Expr → Option Compiled) (hm : MemoOK memo) (env : Env)
    (e : Expr) (hadm : Adm env e = true) :
    obs (Sys.top callOK memo env e) = obs (Interp.eval env e) := by
  simp only [Sys.top]
  split
  · rename_i c hc
    rw [orElse_compiled callOK memo hm env e hadm c hc _ (system_eq_interp callOK memo hm env e hadm)]
  · rw [system_eq_interp callOK memo hm env e hadm]

/-! ## non-vacuity -/

def envAB (a b : NV) : Env := fun s => if s = "a" then some a else if s = "b" then some b else none

/-- `(a*2)+(+/b)` with a vector and a matrix: compiled, admissible, and a value is returned -/
def exE : Expr := .dyad "+" (.dyad "*" (.var "a") (.lit (.int 2) "2")) (.over "+" (.var "b"))
def exEnv : Env := envAB (.arr ⟨[2], [.int 1, .int 2]⟩) (.arr ⟨[2, 2], [.int 1, .int 2, .int 3, .int 4]⟩)

example : (compile numpyTables (fun _ => true) exE).map (·.py.render)
    = some "((_v0*2)+np.add.reduce(_v1, initial=None))" := by decide
example : Adm exEnv exE = true := by decide
example : (compile numpyTables (fun _ => true) exE).map (fun c => runCompiled (fun _ => true) c exEnv)
    = some (.ok (.arr ⟨[2], [.int 6, .int 10]⟩)) := by decide
example : Interp.eval exEnv exE = .ok (.arr ⟨[2], [.int 6, .int 10]⟩) := by decide
/-- a memo holding code compiled under other bindings (a scalar `a`), reused now -/
example : MemoOK (fun e => if e = exE then compile numpyTables (fun _ => true) exE else none) := by
  intro e c h
  by_cases he : e = exE
  · subst he; exact ⟨fun _ => true, by simpa using h⟩
  · simp [he] at h
/-- `Adm` does exclude something: Python's exact product vs int64 -/
example : Adm (envAB (.sc (.int 4611686018427387904)) (.sc (.int 4))) (.dyad "*" (.var "a") (.var "b")) = false := by
  decide
/-- the fallback is exercised: `+/[]` raises in generated code, the interpreter answers `[]` -/
example : (compile numpyTables (fun _ => true) (.over "+" (.var "a"))).map
    (fun c => runCompiled (fun _ => true) c (envAB (.arr ⟨[0], []⟩) .undef)) = some .raised := by decide
example : Interp.eval (envAB (.arr ⟨[0], []⟩) .undef) (.over "+" (.var "a")) = .ok (.arr ⟨[0], []⟩) := by decide

/-! ## the pre-repair code generation: the three deviations named in the property, as witnesses

`pinnedNumpy` is the numpy table of the pinned tree before the `fix:` commits (Python `/ **`,
`((l==r)*1)`, `np.add.reduce(x)`, `np.cumsum(x)`). -/

def pinnedNumpy : BTables :=
  ⟨[("%", ("(", "/", ")")), ("*", ("(", "*", ")")), ("+", ("(", "+", ")")), ("-", ("(", "-", ")")), ("^", ("(", "**", ")"))],
   [("<", ("((", "<", ")*1)")), ("=", ("((", "==", ")*1)")), (">", ("((", ">", ")*1)"))],
   ("(-", ")"),
   [("&", ("np.minimum.reduce(", ")")), ("*", ("np.multiply.reduce(", ")")), ("+", ("np.add.reduce(", ")")), ("|", ("np.maximum.reduce(", ")"))],
   [("*", ("np.cumprod(", ")")), ("+", ("np.cumsum(", ")"))]⟩

def observed (T : BTables) (env : Env) (e : Expr) : Option Obs :=
  (compile T (fun _ => true) e).map fun c => obs (orElse (runCompiled (fun _ => true) c env) (Interp.eval env e))

/-- `a::[[1 2] [3 4]]; +\a`: `np.cumsum` flattens — `[1 3 6 10]` compiled, `[[1 2] [4 6]]` interpreted -/
theorem pinned_scan_rank2_differs :
    let env := envAB (.arr ⟨[2, 2], [.int 1, .int 2, .int 3, .int 4]⟩) .undef
    let e := Expr.scan "+" (.var "a")
    observed pinnedNumpy env e = some (.val (.arr ⟨[4], [.int 1, .int 3, .int 6, .int 10]⟩)) ∧
    obs (Interp.eval env e) = .val (.arr ⟨[2, 2], [.int 1, .int 2, .int 4, .int 6]⟩) ∧
    observed numpyTables env e = some (obs (Interp.eval env e)) := by decide

/-- `e::[]; +/e`: the ufunc's identity `0.0` compiled, `[]` interpreted -/
theorem pinned_reduce_empty_differs :
    let env := envAB (.arr ⟨[0], []⟩) .undef
    let e := Expr.over "+" (.var "a")
    observed pinnedNumpy env e = some (.val (.sc (.real 0))) ∧
    obs (Interp.eval env e) = .val (.arr ⟨[0], []⟩) ∧
    observed numpyTables env e = some (obs (Interp.eval env e)) := by decide

/-- `a::4; a^0.5`: Python `**` gives a real whatever its value (`2.0`); the interpreter's Power gives an
    integer as soon as the result is integral (the float comparison itself is not computed by the kernel:
    it is replayed on the real interpreter by the check) -/
def powEnv : Env := envAB (.sc (.int 4)) .undef
def powE : Expr := .dyad "^" (.var "a") (.lit (.real 4602678819172646912) "0.5")

theorem pinned_power_kind_differs :
    (∃ b, (compile pinnedNumpy (fun _ => true) powE).map (fun c => runCompiled (fun _ => true) c powEnv)
        = some (.ok (.sc (.real b)))) ∧
    (∀ bits : UInt64,
        scPow (Sc.ofFloat (Float.ofInt 4)) (.real 4602678819172646912) = some (.real bits) →
        (fTrunc (Float.ofBits bits) == Float.ofBits bits) = true → (Float.ofBits bits).isInf = false →
        Interp.eval powEnv powE = .ok (.sc (.int (floatToIntExact (Float.ofBits bits))))) := by
  refine ⟨⟨_, rfl⟩, ?_⟩
  intro bits hb hint hinf
  simp [scPow, Sc.ofFloat, Sc.toFloat] at hb
  subst hb
  simp [powEnv, powE, Interp.eval, envGet, envAB, Res.bind, kgDyad, kgPower, vecFn2, ePower, genBin,
    numBin_scalars, scPow, Sc.toFloat, Sc.ofFloat, optRes, scIntegral, hint, hinf]

end Klong.C05
