/-
  C01 extension 1 — property theorems: implementation model (Klong.Model.C01Ext1, mirroring the
  Python of dyads.py / monads.py) = reference (refDyad / refMonad of Klong.Model.C01) wherever the
  reference is defined, for every list length, every index and every count.

  Hypotheses that appear in the statements (all decidable):
  * `notStored x = false` — the literal `x` is what the interpreter holds (no regular numeric nest
    mixing integers and reals, no rank ≥ 2 object array); otherwise the model says `.unmodelled`;
  * `mixedNum v = false` — the reference result is not a regular nest of numbers mixing integers
    and reals (numpy re-packs such a result as one float64 array: known finding mixed-numeric-level);
  * `Res.isErr (implJoin a b) = false` — numpy does not raise while re-packing the joined members
    (np.concatenate with different inner dimensions, or `numpy.asarray(r, dtype=object)` on member
    arrays that agree on leading dimensions only; witness `join_raises_witness`);
  * `matchDom x = true` — Match / Find-by-kg_equal: no reals (np.isclose on floats is not modelled),
    no dictionaries, object lists shorter than 128 (above, kg_equal tries np.array_equal first);
  * `findDom es b = true` — Find in a list: a rank-1 numeric array searched for any atom
    (`np.where(a == b)`, reals included), or members and `b` inside `matchDom`.
  The reference leaves a character paired with a string undefined (`charStrClash`); klongpy identifies
  0ca with "a" there (witness `match_charstr_witness`).
-/
import Klong.Model.C01Ext1
namespace Klong.C01.Ext1
open Klong Klong.C01

def Res.isErr : Res → Bool
  | .err => true
  | _ => false

/-! ## monads -/

theorem first_correct (a : Val) (h : notStored a = false) :
    implFirst a = lift (refMonad "*" a) := by
  cases a with
  | list xs => cases xs <;> simp_all [implFirst, refMonad, lift]
  | str cs => cases cs <;> simp [implFirst, refMonad, lift]
  | _ => simp [implFirst, refMonad, lift]

theorem size_correct (a v : Val) (h : refMonad "#" a = some v) : implSize a = .ok v := by
  cases a <;> simp_all [implSize, refMonad]

theorem enumerate_correct (a v : Val) (h : refMonad "!" a = some v) : implEnumerate a = .ok v := by
  cases a <;> simp_all [implEnumerate, refMonad]
  
theorem atom_correct (a : Val) : implAtom a = lift (refMonad "@" a) := by
  cases a with
  | list xs => cases xs <;> simp [implAtom, refMonad, lift, Val.isAtom]
  | str cs => cases cs <;> simp [implAtom, refMonad, lift, Val.isAtom]
  | _ => simp [implAtom, refMonad, lift, Val.isAtom]

theorem list_correct (a : Val) (h : notStored a = false) :
    implList a = lift (refMonad "," a) := by
  cases a <;> simp_all [implList, refMonad, lift]

theorem not_correct (a v : Val) (h : refMonad "~" a = some v) (hs : notStored a = false) :
    implNot a = .ok v := by
  cases a with
  | list xs => cases xs <;> simp_all [implNot, refMonad, negDeep]
  | str cs => cases cs <;> simp_all [implNot, refMonad, negDeep, negAtom, notStored, mixedStored, hasObjRank2]
  | _ => simp_all [implNot, refMonad, negDeep, negAtom, notStored, mixedStored, hasObjRank2]

/-! ## Cut -/

def chainB : Nat → List Nat → Bool
  | _, [] => true
  | p, q :: r => p ≤ q && chainB q r

theorem zip_all_chain (q : Nat) (r : List Nat) :
    (((q :: r).zip ((q :: r).drop 1)).all fun (x, y) => decide (x ≤ y)) = chainB q r := by
  induction r generalizing q with
  | nil => simp [chainB]
  | cons s r ih =>
    have := ih s
    simp only [List.drop_one, List.tail_cons] at this ⊢
    simp only [List.zip_cons_cons, List.all_cons, chainB, this]

theorem slice_mid {α} (b : List α) (p q : Nat) (h1 : p ≤ q) (h2 : q ≤ b.length) :
    slice b (some (p : Int)) (some (q : Int)) = (b.drop p).take (q - p) := by
  unfold slice pyClamp
  have e1 : ¬ ((p : Int) < 0) := by omega
  have e2 : ¬ ((q : Int) < 0) := by omega
  simp only [e1, e2, if_false, Int.toNat_natCast]
  rw [Nat.min_eq_left (by omega : p ≤ b.length)]
  rw [List.take_eq_take_iff]
  simp
  omega

theorem split_go {α} (b : List α) (ps : List Nat) (prev : Nat)
    (hc : chainB prev ps = true) (hle : ∀ p ∈ ps, p ≤ b.length) (hp : prev ≤ b.length) :
    (divPairs ((prev : Int) :: ps.map (fun (p : Nat) => (p : Int)) ++ [(b.length : Int)])).map
        (fun p => slice b (some p.1) (some p.2))
      = refCut.go prev ps (b.drop prev) := by
  induction ps generalizing prev with
  | nil =>
    simp only [List.map_nil, List.cons_append, List.nil_append, divPairs, List.map_cons, refCut.go]
    rw [slice_mid b prev b.length hp (Nat.le_refl _)]
    rw [List.take_of_length_le (by simp)]
  | cons q r ih =>
    simp only [chainB, Bool.and_eq_true, decide_eq_true_eq] at hc
    have hq : q ≤ b.length := hle q (by simp)
    simp only [List.map_cons, List.cons_append, divPairs, refCut.go]
    have := ih q hc.2 (fun p hp => hle p (by simp [hp])) hq
    simp only [List.cons_append] at this
    rw [this, slice_mid b prev q hc.1 hq, List.drop_drop]
    congr 3
    omega

/-- list level: `np.array_split` at monotone in-range positions of a non-empty list is Cut -/
theorem cutSegs_correct {α} (b : List α) (ps : List Nat)
    (hc : ((ps.zip (ps.drop 1)).all fun (x, y) => decide (x ≤ y)) = true)
    (hle : ps.any (· > b.length) = false) (hn : b.length ≠ 0) :
    cutSegs (ps.map fun (p : Nat) => (p : Int)) b = refCut ps b := by
  unfold cutSegs npArraySplitAt refCut
  have hn' : ¬ (b.length = 0 ∧ (ps.map fun (p : Nat) => (p : Int)).length > 0) := by omega
  simp only [hn', if_false]
  have hle' : ∀ p ∈ ps, p ≤ b.length := by
    intro p hp
    have := List.any_eq_false.mp hle p hp
    simpa using this
  have hch : chainB 0 ps = true := by
    cases ps with
    | nil => rfl
    | cons q r => rw [zip_all_chain] at hc; simp [chainB, hc]
  have := split_go b ps 0 hch hle' (Nat.zero_le _)
  simpa using this


theorem intList_of_natList {vs : List Val} {ps : List Nat} (h : natList vs = some ps) :
    intList vs = some (ps.map fun (p : Nat) => (p : Int)) := by
  induction vs generalizing ps with
  | nil => simp [natList] at h; subst h; rfl
  | cons x r ih =>
    cases x <;> simp [natList] at h
    rename_i n
    obtain ⟨hn, h⟩ := h
    cases hr : natList r with
    | none => simp [hr] at h
    | some qs =>
      simp [hr] at h
      subst h
      simp only [intList, ih hr, List.map_cons, Option.map_some]
      congr 2
      omega

theorem aop_cut : aopOf ":_" = none := by simp [aopOf]

/-- **cut_correct**: wherever the reference defines Cut (monotone positions within a non-empty
    list / string) the `np.array_split` model returns the reference's segments -/
theorem cut_correct (a b v : Val) (h : refDyad ":_" a b = some v) (hs : notStored b = false) :
    implCut a b = .ok v := by
  cases a with
  | int n =>
    simp only [refDyad, aop_cut] at h
    split at h
    · simp at h
    · rename_i hc
      simp only [Bool.or_eq_true, decide_eq_true_eq, not_or] at hc
      obtain ⟨⟨h0, h1⟩, h2⟩ := hc
      have e : [n] = [n.toNat].map fun (p : Nat) => (p : Int) := by simp; omega
      cases b with
      | list xs =>
        simp only [seqLen] at h1 h2
        simp only [implCut, hs, Bool.false_eq_true, if_false, e]
        rw [cutSegs_correct xs [n.toNat] (by simp) (by simp; omega) h2]
        simp only at h
        simp [h, lift]
      | str cs =>
        simp only [seqLen] at h1 h2
        simp only [implCut, hs, Bool.false_eq_true, if_false, e]
        rw [cutSegs_correct (strChars cs) [n.toNat] (by simp) (by simp [strChars]; omega)
          (by simpa [strChars] using h2)]
        simp only at h
        simp [h, lift]
      | _ => simp at h
  | list psv =>
    simp only [refDyad, aop_cut] at h
    cases hp : natList psv with
    | none => simp [hp] at h
    | some ps =>
      simp only [hp] at h
      split at h
      · simp at h
      · rename_i hc
        simp only [Bool.or_eq_true, Bool.not_eq_true', decide_eq_true_eq, not_or,
          Bool.not_eq_false] at hc
        obtain ⟨⟨h0, h1⟩, h2⟩ := hc
        cases b with
        | list xs =>
          simp only [seqLen] at h1 h2
          simp only [implCut, intList_of_natList hp, hs, Bool.false_eq_true, if_false]
          rw [cutSegs_correct xs ps h0 (by simpa using h1) h2]
          simp only at h
          simp [h, lift]
        | str cs =>
          simp only [seqLen] at h1 h2
          simp only [implCut, intList_of_natList hp, hs, Bool.false_eq_true, if_false]
          rw [cutSegs_correct (strChars cs) ps h0 (by simpa [strChars] using h1)
            (by simpa [strChars] using h2)]
          simp only at h
          simp [h, lift]
        | _ => simp at h
  | _ => simp [refDyad, aop_cut] at h

/-! ## At/Index -/

theorem aop_index : aopOf "@" = none := by simp [aopOf]

theorem npCoerce_id {v : Val} (h : mixedNum v = false) : npCoerce v = v := by
  simp [npCoerce, h]

theorem pyIndex_nat {α} (es : List α) (i : Nat) : pyIndex es (i : Int) = es[i]? := by
  unfold pyIndex
  have : ¬ ((i : Int) < 0) := by omega
  simp [this]

theorem mapM_pyIndex (es : List Val) (is : List Nat) :
    (is.map fun (p : Nat) => (p : Int)).mapM (pyIndex es) = is.mapM (fun i => es[i]?) := by
  induction is with
  | nil => rfl
  | cons i r ih => simp only [List.map_cons, List.mapM_cons, pyIndex_nat, ih]

theorem indexSeq_correct (j : Bool) (a : Val) (es : List Val) (b v : Val)
    (h : (match b with
      | .int i => if i < 0 then none else es[i.toNat]?
      | .list ixs =>
        match natList ixs with
        | some is => (is.mapM fun i => es[i]?).bind (reseq j)
        | none => none
      | _ => none) = some v)
    (hm : mixedNum v = false) : implIndexSeq j a es b = .ok v := by
  cases b with
  | int i =>
    simp only at h
    split at h
    · simp at h
    · rename_i hi
      have e : i = ((i.toNat : Nat) : Int) := by omega
      rw [implIndexSeq, e, pyIndex_nat, h]; rfl
  | list ixs =>
    simp only at h
    cases ixs with
    | nil =>
      -- the empty index list: [] / ""
      simp only [natList, List.mapM_nil] at h
      cases j with
      | true => simp [reseq, joinChars] at h; subst h; simp [implIndexSeq]
      | false => simp [reseq] at h; subst h; simp [implIndexSeq]
    | cons x r =>
      cases hp : natList (x :: r) with
      | none => simp [hp] at h
      | some is =>
        simp only [hp] at h
        simp only [implIndexSeq, intList_of_natList hp, mapM_pyIndex]
        cases hr : (is.mapM fun i => es[i]?) with
        | none => simp [hr] at h
        | some rs =>
          simp only [hr, Option.bind_some, reseq] at h
          cases j with
          | true => simp only [if_true] at h ⊢; simp [h, lift]
          | false =>
            simp only [Bool.false_eq_true, if_false, Option.some.injEq] at h ⊢
            subst h
            rw [npCoerce_id hm]
  | _ => simp at h


/-- **index_correct**: for a list or string `a` and an in-range non-negative index / a list
    (possibly empty) of such indices, Python / numpy indexing returns the reference's element(s); excluded:
    results that numpy re-packs as one float array (`mixedNum v`) -/
theorem index_correct (a b v : Val) (h : refDyad "@" a b = some v) (hs : notStored a = false)
    (hm : mixedNum v = false) : implIndex a b = .ok v := by
  simp only [refDyad, aop_index, refIndex] at h
  cases a with
  | list es =>
    simp only [seqElems] at h
    simp only [implIndex, hs, Bool.false_eq_true, if_false]
    exact indexSeq_correct false _ es b v h hm
  | str cs =>
    simp only [seqElems] at h
    simp only [implIndex, hs, Bool.false_eq_true, if_false]
    exact indexSeq_correct true _ (strChars cs) b v h hm
  | _ => simp [seqElems] at h

/-! ## Join -/


theorem aop_join : aopOf "," = none := by simp [aopOf]

theorem joinGeneral_ok (members : List Val) (hm : mixedNum (.list members) = false)
    (hr : Res.isErr (joinGeneral members) = false) : joinGeneral members = .ok (.list members) := by
  unfold joinGeneral at hr ⊢
  simp only at hr ⊢
  split
  · rw [npCoerce_id hm]
  · rename_i hn
    simp only [hn] at hr
    split
    · rename_i hc; simp [hc, Res.isErr] at hr
    · rfl

theorem join_correct (a b v : Val) (h : refDyad "," a b = some v)
    (hs : notStored a = false) (ht : notStored b = false)
    (hr : Res.isErr (implJoin a b) = false) (hm : mixedNum v = false) :
    implJoin a b = .ok v := by
  simp only [refDyad, aop_join] at h
  simp only [implJoin, hs, ht, Bool.or_self, Bool.false_eq_true, if_false] at hr ⊢
  cases a with
  | list xs =>
    cases b with
    | list ys =>
      simp only [refJoin, Option.some.injEq] at h
      subst h
      simp only [strOf] at hr ⊢
      by_cases hx : xs.length = 0
      · have : xs = [] := List.eq_nil_of_length_eq_zero hx
        subst this
        simp
      · simp only [hx, if_false] at hr ⊢
        split
        · rename_i hc
          simp only [hc, if_true] at hr
          split
          · rw [npCoerce_id hm]
          · rename_i hne
            rw [if_neg hne] at hr
            simp [Res.isErr] at hr
        · rename_i hc
          simp only [hc] at hr
          exact joinGeneral_ok _ hm hr
    | _ =>
      simp only [refJoin, strOf, arrToList, Option.some.injEq, reduceCtorEq] at h hr ⊢ <;>
        (try subst h) <;> (try (exact joinGeneral_ok _ hm hr)) <;> (try simp [Res.isErr] at hr)
  | _ =>
    cases b <;> simp only [refJoin, strOf, arrToList, Option.some.injEq, reduceCtorEq] at h hr ⊢ <;>
      (try subst h) <;> (try (exact joinGeneral_ok _ hm hr)) <;> (try simp [Res.isErr] at hr) <;> (try simp)

/-! ## Find in a string -/

/-- all match positions of `sub` in `rest`, offset `j` (specification of the finditer loop) -/
def matchesFrom (sub : List Nat) : List Nat → Nat → List Nat
  | [], j => if isPrefix sub [] then [j] else []
  | c :: t, j => (if isPrefix sub (c :: t) then [j] else []) ++ matchesFrom sub t (j + 1)

theorem pyFindFrom_none (sub : List Nat) : ∀ (rest : List Nat) (j : Nat),
    pyFindFrom sub rest j = none → matchesFrom sub rest j = [] := by
  intro rest
  induction rest with
  | nil => intro j h; simp only [pyFindFrom] at h; split at h <;> simp_all [matchesFrom]
  | cons c t ih =>
    intro j h
    simp only [pyFindFrom] at h
    split at h
    · simp at h
    · rename_i hp
      simp [matchesFrom, hp, ih (j + 1) h]

theorem pyFindFrom_some (sub : List Nat) : ∀ (rest : List Nat) (j k : Nat),
    pyFindFrom sub rest j = some k →
      j ≤ k ∧ k - j ≤ rest.length ∧
      matchesFrom sub rest j =
        k :: (if k - j < rest.length then matchesFrom sub (rest.drop (k - j + 1)) (k + 1) else []) := by
  intro rest
  induction rest with
  | nil =>
    intro j k h
    simp only [pyFindFrom] at h
    split at h
    · rename_i hp
      simp at h; subst h
      simp [matchesFrom, hp]
    · simp at h
  | cons c t ih =>
    intro j k h
    simp only [pyFindFrom] at h
    split at h
    · rename_i hp
      simp at h; subst h
      simp [matchesFrom, hp]
    · rename_i hp
      obtain ⟨h1, h2, h3⟩ := ih (j + 1) k h
      refine ⟨by omega, by simp; omega, ?_⟩
      simp only [matchesFrom, hp, Bool.false_eq_true, if_false, List.nil_append, h3, List.length_cons]
      have e : k - j = (k - (j + 1)) + 1 := by omega
      rw [e]
      simp only [List.drop_succ_cons, Nat.add_lt_add_iff_right]

theorem finditer_eq (s sub : List Nat) : ∀ (fuel i : Nat), i ≤ s.length → s.length + 2 ≤ fuel + i →
    finditer fuel s sub i = matchesFrom sub (s.drop i) i := by
  intro fuel
  induction fuel with
  | zero => intro i h1 h2; omega
  | succ f ih =>
    intro i h1 h2
    simp only [finditer, pyFind]
    have hi : ¬ i > s.length := by omega
    simp only [hi, if_false]
    cases hf : pyFindFrom sub (s.drop i) i with
    | none => simp [pyFindFrom_none sub _ _ hf]
    | some k =>
      obtain ⟨k1, k2, k3⟩ := pyFindFrom_some sub _ _ _ hf
      simp only [List.length_drop] at k2 k3
      rw [k3]
      simp only [List.cons.injEq, true_and]
      split
      · rename_i hlt
        rw [ih (k + 1) (by omega) (by omega), List.drop_drop]
        congr 2
        omega
      · rename_i hge
        have hk : k = s.length := by omega
        cases f with
        | zero => rfl
        | succ f' =>
          simp only [finditer, pyFind]
          have : k + 1 > s.length := by omega
          simp [this]

theorem isPrefix_length : ∀ (b r : List Nat), isPrefix b r = true → b.length ≤ r.length := by
  intro b
  induction b with
  | nil => intro r _; simp
  | cons x b ih =>
    intro r h
    cases r with
    | nil => simp [isPrefix] at h
    | cons y r =>
      simp only [isPrefix, Bool.and_eq_true] at h
      have := ih r h.2
      simp; omega

theorem matchesFrom_filter (sub : List Nat) : ∀ (rest : List Nat) (j : Nat),
    matchesFrom sub rest j =
      ((List.range (rest.length + 1)).filter fun i => isPrefix sub (rest.drop i)).map (· + j) := by
  intro rest
  induction rest with
  | nil =>
    intro j
    simp only [matchesFrom, List.length_nil, Nat.zero_add, List.range_one]
    by_cases h : isPrefix sub [] = true <;> simp [h]
  | cons c t ih =>
    intro j
    simp only [matchesFrom, List.length_cons]
    rw [List.range_succ_eq_map, List.filter_cons]
    simp only [List.drop_zero, List.filter_map]
    rw [ih (j + 1)]
    have hq : ((fun i => isPrefix sub (List.drop i (c :: t))) ∘ Nat.succ)
        = fun i => isPrefix sub (List.drop i t) := by
      funext i; simp
    by_cases h : isPrefix sub (c :: t) = true
    · simp only [h, if_true, List.map_cons, Nat.zero_add, List.singleton_append, List.cons.injEq, true_and]
      rw [List.map_map, hq]
      apply List.map_congr_left
      intro i _
      simp; omega
    · simp only [h, Bool.false_eq_true, if_false, List.nil_append]
      rw [List.map_map, hq]
      apply List.map_congr_left
      intro i _
      simp; omega

/-- list level: the `finditer` loop yields exactly the reference's substring positions -/
theorem finditer_correct (s sub : List Nat) :
    (finditer (s.length + 2) s sub 0).map natVal = refFindSub s sub := by
  rw [finditer_eq s sub _ 0 (by omega) (by omega), List.drop_zero, matchesFrom_filter]
  unfold refFindSub
  simp only [Nat.add_zero, List.map_id']
  congr 1
  · apply List.filter_congr
    intro i hi
    have hi' := List.mem_range.mp hi
    by_cases h : isPrefix sub (s.drop i) = true
    · have := isPrefix_length _ _ h
      simp only [List.length_drop] at this
      simp [h]
      omega
    · simp [h]


theorem vmatch_chr (x c : Nat) : vmatch (.chr x) (.chr c) = (x == c) := by
  simp only [vmatch, toF]
  show Val.beq _ _ = _
  simp [Val.beq]

theorem findChr_eq (c : Nat) : ∀ (rest : List Nat) (j : Nat),
    (((strChars rest).zipIdx j).filter fun p => vmatch p.1 (.chr c)).map (fun p => Val.int (p.2 : Nat))
      = (matchesFrom [c] rest j).map natVal := by
  intro rest
  induction rest with
  | nil => intro j; simp [strChars, matchesFrom, isPrefix]
  | cons x t ih =>
    intro j
    have := ih (j + 1)
    simp only [strChars] at this
    simp only [strChars, List.map_cons, List.zipIdx_cons, List.filter_cons, vmatch_chr, matchesFrom, isPrefix,
      Bool.and_true]
    by_cases h : x = c
    · subst h; simp [this, natVal]
    · have h' : ¬ c = x := fun e => h e.symm
      simp [h, h', this]

theorem aop_find : aopOf "?" = none := by simp [aopOf]

/-- **find_str_correct**: Find in a string (a character or a substring, the empty string
    included): the `finditer` loop over `str.find` returns the reference's positions -/
theorem find_str_correct (s : List Nat) (b v : Val) (h : refDyad "?" (.str s) b = some v) :
    implFind (.str s) b = .ok v := by
  simp only [refDyad, aop_find] at h
  cases b with
  | chr c =>
    simp only [Option.some.injEq] at h
    subst h
    simp only [implFind, pyStr, refFindElem]
    rw [finditer_eq s [c] _ 0 (by omega) (by omega), List.drop_zero, ← findChr_eq]
  | str t =>
    simp only [Option.some.injEq] at h
    subst h
    simp only [implFind, pyStr, finditer_correct]
  | _ => simp at h

/-! ## Match -/

/- the excluded pairing: somewhere in the paired traversal a character meets the one-character
   string of that character (KGChar is a Python str: klongpy identifies them, the reference does not) -/
mutual
def charStrPair : Val → Val → Bool
  | .list xs, .list ys => charStrPairL xs ys
  | .chr c, .str s => s == [c]
  | .str s, .chr c => s == [c]
  | _, _ => false
def charStrPairL : List Val → List Val → Bool
  | x :: xs, y :: ys => charStrPair x y || charStrPairL xs ys
  | _, _ => false
end

/- the modelled class: no reals, no dictionaries, object (non-numeric) lists shorter than 128 -/
mutual
def matchDom : Val → Bool
  | .real _ => false
  | .dict _ => false
  | .list xs => (isIntArr (.list xs) || decide (xs.length < 128)) && matchDomL xs
  | _ => true
def matchDomL : List Val → Bool
  | [] => true
  | x :: xs => matchDom x && matchDomL xs
end

theorem beq_def (a b : Val) : (a == b) = Val.beq a b := rfl

mutual
theorem matchDom_noReal : ∀ (v : Val), matchDom v = true → hasReal v = false
  | .list xs, h => by
    simp only [matchDom, Bool.and_eq_true] at h
    simp only [hasReal]
    exact matchDomL_noReal xs h.2
  | .int _, _ => rfl
  | .real _, h => by simp [matchDom] at h
  | .chr _, _ => rfl
  | .sym _, _ => rfl
  | .str _, _ => rfl
  | .dict _, _ => rfl
  | .undef, _ => rfl
theorem matchDomL_noReal : ∀ (xs : List Val), matchDomL xs = true → hasRealL xs = false
  | [], _ => rfl
  | x :: xs, h => by
    simp only [matchDomL, Bool.and_eq_true] at h
    simp only [hasRealL, matchDom_noReal x h.1, matchDomL_noReal xs h.2, Bool.or_self]
end

theorem numShapes_all (p : Option (List Nat) → Bool) : ∀ (xs : List Val),
    (numShape.numShapes xs).all p = true → ∀ x ∈ xs, p (numShape x) = true := by
  intro xs
  induction xs with
  | nil => intro _ x hx; simp at hx
  | cons y ys ih =>
    intro h x hx
    simp only [numShape.numShapes, List.all_cons, Bool.and_eq_true] at h
    rcases List.mem_cons.mp hx with rfl | hx
    · exact h.1
    · exact ih h.2 x hx

theorem numShape_members (xs : List Val) (h : (numShape (.list xs)).isSome = true) :
    ∀ x ∈ xs, (numShape x).isSome = true := by
  cases xs with
  | nil => intro x hx; simp at hx
  | cons y ys =>
    simp only [numShape] at h
    cases hy : numShape y with
    | none => simp [hy] at h
    | some s =>
      simp only [hy] at h
      split at h
      · rename_i hall
        intro x hx
        rcases List.mem_cons.mp hx with rfl | hx
        · simp [hy]
        · have := numShapes_all _ ys hall x hx
          simp at this
          simp [this]
      · simp at h

theorem hasRealL_members : ∀ (xs : List Val), hasRealL xs = false → ∀ x ∈ xs, hasReal x = false := by
  intro xs
  induction xs with
  | nil => intro _ x hx; simp at hx
  | cons y ys ih =>
    intro h x hx
    simp only [hasRealL, Bool.or_eq_false_iff] at h
    rcases List.mem_cons.mp hx with rfl | hx
    · exact h.1
    · exact ih h.2 x hx

/- on regular nests of integers `np.array_equal` (structural equality) is the reference Match -/
mutual
theorem beq_intArr : ∀ (a b : Val), (numShape a).isSome = true → hasReal a = false →
    (numShape b).isSome = true → hasReal b = false → Val.beq a b = vmatch a b
  | .list xs, .list ys, ha, ra, hb, rb => by
    simp only [Val.beq, vmatch]
    simp only [hasReal] at ra rb
    exact beqL_intArr xs ys
      (fun x hx => ⟨numShape_members xs ha x hx, hasRealL_members xs ra x hx⟩)
      (fun y hy => ⟨numShape_members ys hb y hy, hasRealL_members ys rb y hy⟩)
  | .int a, .int b, _, _, _, _ => by simp [Val.beq, vmatch]
  | .int a, .list ys, _, _, _, _ => by simp [Val.beq, vmatch, toF, beq_def]
  | .list xs, .int b, _, _, _, _ => by simp [Val.beq, vmatch, toF, beq_def]
  | .real _, _, _, ra, _, _ => by simp [hasReal] at ra
  | _, .real _, _, _, _, rb => by simp [hasReal] at rb
  | .chr _, _, ha, _, _, _ => by simp [numShape] at ha
  | .sym _, _, ha, _, _, _ => by simp [numShape] at ha
  | .str _, _, ha, _, _, _ => by simp [numShape] at ha
  | .dict _, _, ha, _, _, _ => by simp [numShape] at ha
  | .undef, _, ha, _, _, _ => by simp [numShape] at ha
  | _, .chr _, _, _, hb, _ => by simp [numShape] at hb
  | _, .sym _, _, _, hb, _ => by simp [numShape] at hb
  | _, .str _, _, _, hb, _ => by simp [numShape] at hb
  | _, .dict _, _, _, hb, _ => by simp [numShape] at hb
  | _, .undef, _, _, hb, _ => by simp [numShape] at hb
theorem beqL_intArr : ∀ (xs ys : List Val),
    (∀ x ∈ xs, (numShape x).isSome = true ∧ hasReal x = false) →
    (∀ y ∈ ys, (numShape y).isSome = true ∧ hasReal y = false) → Val.beqList xs ys = vmatchL xs ys
  | [], [], _, _ => by simp [Val.beqList, vmatchL]
  | [], _ :: _, _, _ => by simp [Val.beqList, vmatchL]
  | _ :: _, [], _, _ => by simp [Val.beqList, vmatchL]
  | x :: xs, y :: ys, hx, hy => by
    have h1 := hx x (by simp)
    have h2 := hy y (by simp)
    simp only [Val.beqList, vmatchL]
    rw [beq_intArr x y h1.1 h1.2 h2.1 h2.2,
      beqL_intArr xs ys (fun a ha => hx a (by simp [ha])) (fun a ha => hy a (by simp [ha]))]
end


theorem vmatchL_length : ∀ (xs ys : List Val), xs.length ≠ ys.length → vmatchL xs ys = false
  | [], [], h => by simp at h
  | [], _ :: _, _ => by simp [vmatchL]
  | _ :: _, [], _ => by simp [vmatchL]
  | x :: xs, y :: ys, h => by
    simp only [vmatchL, vmatchL_length xs ys (by simpa using h), Bool.and_false]

theorem atomEq_correct (a b : Val) (ha : matchDom a = true) (hb : matchDom b = true)
    (hc : charStrPair a b = false) (hla : isListVal a = false) (hlb : isListVal b = false) :
    atomEq a b = some (vmatch a b) := by
  cases a <;> cases b <;>
    simp_all [atomEq, vmatch, toF, beq_def, Val.beq, matchDom, charStrPair, isListVal]
  intro h; exact hc h.symm



theorem matchDom_list {xs : List Val} (h : matchDom (.list xs) = true) :
    (isIntArr (.list xs) = true ∨ xs.length < 128) ∧ matchDomL xs = true := by
  simpa [matchDom] using h

theorem vmatch_list_atom (xs : List Val) (x : Val) (h1 : ∀ ys, x = Val.list ys → False) :
    vmatch (.list xs) x = false ∧ vmatch x (.list xs) = false := by
  cases x <;> simp [vmatch, toF, beq_def, Val.beq]
  exact (h1 _ rfl).elim

/-- kg_equal is the reference Match on the modelled class outside the char/string pairing -/
theorem kgEqual_correct :
    (∀ (a b : Val), matchDom a = true → matchDom b = true → charStrPair a b = false →
      kgEqual a b = some (vmatch a b)) ∧
    (∀ (xs ys : List Val), matchDomL xs = true → matchDomL ys = true → charStrPairL xs ys = false →
      xs.length = ys.length → kgEqualL xs ys = some (vmatchL xs ys)) := by
  apply kgEqual.mutual_induct
    (motive_1 := fun a b => matchDom a = true → matchDom b = true → charStrPair a b = false →
      kgEqual a b = some (vmatch a b))
    (motive_2 := fun xs ys => matchDomL xs = true → matchDomL ys = true → charStrPairL xs ys = false →
      xs.length = ys.length → kgEqualL xs ys = some (vmatchL xs ys))
  · -- a float array: outside the domain
    intro xs ys hr ha hb _
    have h1 := matchDom_noReal _ ha
    have h2 := matchDom_noReal _ hb
    simp [isRealArr, h1, h2] at hr
  · -- two integer arrays: np.array_equal
    intro xs ys hr hi ha hb _
    simp only [Bool.and_eq_true] at hi
    rw [kgEqual]
    simp only [hr, hi.1, hi.2, Bool.and_self, if_true, Bool.false_eq_true, if_false]
    have i1 := hi.1
    have i2 := hi.2
    simp only [isIntArr, Bool.and_eq_true, Bool.not_eq_true', isListVal, true_and] at i1 i2
    have := beq_intArr (.list xs) (.list ys) i1.1 i1.2 i2.1 i2.2
    simp only [Val.beq, vmatch] at this
    simp only [vmatch, this]
  · -- object arrays of size ≥ 128: outside the domain
    intro xs ys _ _ h3 ha _ _
    simp only [Bool.and_eq_true, Bool.not_eq_true', decide_eq_true_eq] at h3
    have := (matchDom_list ha).1
    rcases this with h | h
    · simp [h3.1.1] at h
    · omega
  · -- different lengths
    intro xs ys hr hi h3 hl _ _ _
    rw [kgEqual]
    simp only [hr, hi, h3, hl, if_true, Bool.false_eq_true, if_false, vmatch]
    rw [vmatchL_length xs ys (by simpa using hl)]
  · -- element-wise
    intro xs ys hr hi h3 hl ih ha hb hc
    rw [kgEqual]
    simp only [hr, hi, h3, hl, Bool.false_eq_true, if_false, vmatch]
    simp only [charStrPair] at hc
    exact ih (matchDom_list ha).2 (matchDom_list hb).2 hc (by simpa using hl)
  · intro xs kvs _ hb; simp [matchDom] at hb
  · intro kvs xs ha; simp [matchDom] at ha
  · -- list against a non-list
    intro xs x h1 h2 _ _ _
    rw [(vmatch_list_atom xs x h1).1]
    cases x <;> first | (exact (h1 _ rfl).elim) | (exact (h2 _ rfl).elim) | simp [kgEqual]
  · intro t xs h1 h2 _ _ _
    rw [(vmatch_list_atom xs t h1).2]
    cases t <;> first | (exact (h1 _ rfl).elim) | (exact (h2 _ rfl).elim) | simp [kgEqual]
  · -- two non-lists
    intro a b _ _ _ h4 h5 ha hb hc
    have hla : isListVal a = false := by cases a <;> first | (exact (h4 _ rfl).elim) | rfl
    have hlb : isListVal b = false := by cases b <;> first | (exact (h5 _ rfl).elim) | rfl
    rw [← atomEq_correct a b ha hb hc hla hlb]
    cases a <;> cases b <;> first | (exact (h4 _ rfl).elim) | (exact (h5 _ rfl).elim) | simp [kgEqual]
  · -- all(...): a member comparison outside the model cannot happen inside the domain
    intro x xs y ys hn ih ha hb hc _
    simp only [matchDomL, Bool.and_eq_true] at ha hb
    simp only [charStrPairL, Bool.or_eq_false_iff] at hc
    rw [ih ha.1 hb.1 hc.1] at hn
    simp at hn
  · intro x xs y ys hf ih ha hb hc _
    simp only [matchDomL, Bool.and_eq_true] at ha hb
    simp only [charStrPairL, Bool.or_eq_false_iff] at hc
    have := ih ha.1 hb.1 hc.1
    rw [hf] at this
    simp only [Option.some.injEq] at this
    simp only [kgEqualL, hf, vmatchL, ← this, Bool.false_and]
  · intro x xs y ys ht ih1 ih2 ha hb hc hl
    simp only [matchDomL, Bool.and_eq_true] at ha hb
    simp only [charStrPairL, Bool.or_eq_false_iff] at hc
    have := ih1 ha.1 hb.1 hc.1
    rw [ht] at this
    simp only [Option.some.injEq] at this
    simp only [kgEqualL, ht, vmatchL, ← this, Bool.true_and]
    exact ih2 ha.2 hb.2 hc.2 (by simpa using hl)
  · intro t x hne _ _ _ hl
    cases t with
    | nil =>
      cases x with
      | nil => simp [kgEqualL, vmatchL]
      | cons _ _ => simp at hl
    | cons a as =>
      cases x with
      | nil => simp at hl
      | cons b bs => exact (hne a as b bs rfl rfl).elim

theorem aop_match : aopOf "~" = none := by simp [aopOf]

/- the reference's undefined class (any character paired with any string) contains the pairing
   on which kg_equal deviates -/
mutual
theorem pair_of_noClash : ∀ (a b : Val), charStrClash a b = false → charStrPair a b = false
  | .list xs, .list ys, h => by
    simp only [charStrClash] at h
    simp only [charStrPair]
    exact pairL_of_noClash xs ys h
  | .chr _, .str _, h => by simp [charStrClash] at h
  | .str _, .chr _, h => by simp [charStrClash] at h
  | .int _, _, _ => by simp [charStrPair]
  | .real _, _, _ => by simp [charStrPair]
  | .sym _, _, _ => by simp [charStrPair]
  | .dict _, _, _ => by simp [charStrPair]
  | .undef, _, _ => by simp [charStrPair]
  | .chr _, .int _, _ => by simp [charStrPair]
  | .chr _, .real _, _ => by simp [charStrPair]
  | .chr _, .chr _, _ => by simp [charStrPair]
  | .chr _, .sym _, _ => by simp [charStrPair]
  | .chr _, .list _, _ => by simp [charStrPair]
  | .chr _, .dict _, _ => by simp [charStrPair]
  | .chr _, .undef, _ => by simp [charStrPair]
  | .str _, .int _, _ => by simp [charStrPair]
  | .str _, .real _, _ => by simp [charStrPair]
  | .str _, .str _, _ => by simp [charStrPair]
  | .str _, .sym _, _ => by simp [charStrPair]
  | .str _, .list _, _ => by simp [charStrPair]
  | .str _, .dict _, _ => by simp [charStrPair]
  | .str _, .undef, _ => by simp [charStrPair]
  | .list _, .int _, _ => by simp [charStrPair]
  | .list _, .real _, _ => by simp [charStrPair]
  | .list _, .chr _, _ => by simp [charStrPair]
  | .list _, .str _, _ => by simp [charStrPair]
  | .list _, .sym _, _ => by simp [charStrPair]
  | .list _, .dict _, _ => by simp [charStrPair]
  | .list _, .undef, _ => by simp [charStrPair]
theorem pairL_of_noClash : ∀ (xs ys : List Val), charStrClash.clashL xs ys = false → charStrPairL xs ys = false
  | [], _, _ => by simp [charStrPairL]
  | _ :: _, [], _ => by simp [charStrPairL]
  | x :: xs, y :: ys, h => by
    simp only [charStrClash.clashL, Bool.or_eq_false_iff] at h
    simp only [charStrPairL, pair_of_noClash x y h.1, pairL_of_noClash xs ys h.2, Bool.or_self]
end

/-- **match_correct**: wherever the reference defines Match, on values without reals /
    dictionaries (object lists shorter than 128, where kg_equal switches to np.array_equal):
    `kg_equal` (array_equal on integer arrays, member-wise `all(...)` on object arrays, `==` on
    atoms) is the reference Match, for every nesting depth and length -/
theorem match_correct (a b v : Val) (h : refDyad "~" a b = some v)
    (hs : notStored a = false) (ht : notStored b = false)
    (ha : matchDom a = true) (hb : matchDom b = true) :
    implMatch a b = .ok v := by
  simp only [refDyad, aop_match] at h
  split at h
  · simp at h
  · rename_i hcl
    simp only [Option.some.injEq] at h
    subst h
    have hc := pair_of_noClash a b (by simpa using hcl)
    simp only [implMatch, hs, ht, Bool.or_self, Bool.false_eq_true, if_false,
      kgEqual_correct.1 a b ha hb hc]

/-! ## Find in a list -/

/-- members of a rank-1 numeric array are numbers -/
theorem rank1_members (es : List Val) (s : List Nat) (h : numShape (.list es) = some s)
    (h1 : s.length = 1) : ∀ x ∈ es, x.isNum = true := by
  cases es with
  | nil => intro x hx; simp at hx
  | cons y ys =>
    simp only [numShape] at h
    cases hy : numShape y with
    | none => simp [hy] at h
    | some t =>
      simp only [hy] at h
      split at h
      · rename_i hall
        simp only [Option.some.injEq] at h
        subst h
        simp only [List.length_cons, Nat.add_eq_right, List.length_eq_zero_iff] at h1
        subst h1
        have key : ∀ z, numShape z = some [] → z.isNum = true := by
          intro z hz
          cases z with
          | list zs =>
            cases zs with
            | nil => simp [numShape] at hz
            | cons w ws =>
              simp only [numShape] at hz
              split at hz
              · simp at hz
              · split at hz <;> simp at hz
          | _ => simp_all [numShape, Val.isNum]
        intro x hx
        rcases List.mem_cons.mp hx with rfl | hx
        · exact key _ hy
        · have := numShapes_all _ ys hall x hx
          exact key _ (by simpa using this)
      · simp at h

theorem numEq_vmatch (x b : Val) (hx : x.isNum = true) (hb : isListVal b = false) :
    numEq x b = vmatch x b := by
  cases x <;> simp [Val.isNum] at hx <;> cases b <;>
    simp_all [numEq, vmatch, toF, beq_def, Val.beq, isListVal]

theorem npWhereEq_go (b : Val) : ∀ (es : List Val) (i : Nat), (∀ x ∈ es, numEq x b = vmatch x b) →
    ((es.zipIdx i).filter fun p => numEq p.1 b) = ((es.zipIdx i).filter fun p => vmatch p.1 b) := by
  intro es
  induction es with
  | nil => intro i _; rfl
  | cons x xs ih =>
    intro i h
    simp only [List.zipIdx_cons, List.filter_cons, h x (by simp),
      ih (i + 1) (fun y hy => h y (by simp [hy]))]

theorem findEq_go (b : Val) : ∀ (es : List Val) (i : Nat), (∀ x ∈ es, kgEqual x b = some (vmatch x b)) →
    findEq b es i = some (((es.zipIdx i).filter fun p => vmatch p.1 b).map fun p => Val.int (p.2 : Nat)) := by
  intro es
  induction es with
  | nil => intro i _; rfl
  | cons x xs ih =>
    intro i h
    simp only [findEq, h x (by simp), ih (i + 1) (fun y hy => h y (by simp [hy])), List.zipIdx_cons,
      List.filter_cons]
    cases vmatch x b <;> simp [natVal]

/-- the right operands for which the reference defines Find in a list -/
def findArg : Val → Bool
  | .list _ => false
  | .chr _ => false
  | .str _ => false
  | _ => true

theorem charStrPair_atom (x b : Val) (hb : findArg b = true) : charStrPair x b = false := by
  cases x <;> cases b <;> simp_all [charStrPair, findArg]

theorem matchDomL_members : ∀ (es : List Val), matchDomL es = true → ∀ x ∈ es, matchDom x = true := by
  intro es
  induction es with
  | nil => intro _ x hx; simp at hx
  | cons y ys ih =>
    intro h x hx
    simp only [matchDomL, Bool.and_eq_true] at h
    rcases List.mem_cons.mp hx with rfl | hx
    · exact h.1
    · exact ih h.2 x hx

/-- the operand class of find_list_correct: a rank-1 numeric array searched for any atom
    (`np.where(a == b)`), or members / `b` inside the Match domain (`kg_equal` per member) -/
def findDom (es : List Val) (b : Val) : Bool :=
  (match b with | .dict _ => false | _ => true) &&
  (((numShape (.list es)).isSome && (arrShape (.list es)).length == 1) || (matchDomL es && matchDom b))

/-- **find_list_correct**: Find of an atom in a list returns the reference's positions -/
theorem find_list_correct (es : List Val) (b v : Val) (h : refDyad "?" (.list es) b = some v)
    (hs : notStored (.list es) = false) (ht : notStored b = false) (hd : findDom es b = true) :
    implFind (.list es) b = .ok v := by
  simp only [refDyad, aop_find] at h
  have hbv : findArg b = true ∧ v = .list (refFindElem es b) := by
    cases b <;> simp at h <;> (subst h; simp [findArg])
  obtain ⟨hb, hv⟩ := hbv
  subst hv
  clear h
  have hl : isListVal b = false := by cases b <;> simp_all [isListVal, findArg]
  simp only [findDom, Bool.and_eq_true, Bool.or_eq_true, beq_iff_eq] at hd
  simp only [implFind, hs, ht, Bool.or_self, Bool.false_eq_true, if_false, hl, Bool.false_or]
  have hnd : ∀ kvs, b ≠ .dict kvs := by intro kvs e; subst e; simp at hd
  by_cases hc : ((arrShape (.list es)).length != 1 || (numShape (.list es)).isNone) = true
  · -- kg_equal per member
    have hdom : matchDomL es = true ∧ matchDom b = true := by
      rcases hd.2 with h1 | h1
      · simp only [Bool.or_eq_true, bne_iff_ne, ne_eq] at hc
        rcases hc with hc | hc
        · exact (hc h1.2).elim
        · have := h1.1; simp [Option.isSome_iff_ne_none] at this; simp [Option.isNone_iff_eq_none] at hc; exact (this hc).elim
      · exact h1
    have hall : ∀ x ∈ es, kgEqual x b = some (vmatch x b) := fun x hx =>
      kgEqual_correct.1 x b (matchDomL_members es hdom.1 x hx) hdom.2 (charStrPair_atom x b hb)
    cases b <;> first | (exact (hnd _ rfl).elim) | (simp only [hc, if_true, findEq_go _ es 0 hall]; rfl)
  · have hc' := hc
    simp only [Bool.or_eq_true, bne_iff_ne, ne_eq, not_or, Decidable.not_not] at hc'
    obtain ⟨c1, c2⟩ := hc'
    obtain ⟨s, hn⟩ : ∃ s, numShape (.list es) = some s := by
      cases hn : numShape (.list es) with
      | none => simp [hn] at c2
      | some s => exact ⟨s, rfl⟩
    have c1' : s.length = 1 := by simpa [arrShape, hn] using c1
    have hnum := rank1_members es s hn c1'
    have hall : ∀ x ∈ es, numEq x b = vmatch x b := fun x hx => numEq_vmatch x b (hnum x hx) hl
    cases b <;> first | (exact (hnd _ rfl).elim) |
      (simp only [hc, Bool.false_eq_true, if_false, npWhereEq, refFindElem, npWhereEq_go _ es 0 hall]; rfl)

/-! ## witnesses: what the code does where the reference is silent or differs (all `by decide`) -/

/-- the model returns exactly `v` -/
def _root_.Klong.C01.Res.is (r : Res) (v : Val) : Bool :=
  match r with
  | .ok w => w == v
  | _ => false

private def i (n : Int) : Val := .int n
private def half : Val := .real 0x3FE0000000000000      -- 0.5

/-- negative indices count from the end (the reference leaves them undefined) -/
theorem index_negative_witness :
    (implIndex (.list [i 1, i 2, i 3]) (i (-1))).is (i 3) = true ∧
    (implIndex (.str [97, 98, 99]) (.list [i 0, i (-1)])).is (.str [97, 99]) = true ∧
    Res.isErr (implIndex (.list [i 1, i 2, i 3]) (i (-4))) = true ∧
    (refIndex (.list [i 1, i 2, i 3]) (i (-1))).isNone = true := by decide

/-- an empty index list yields an empty list / string; a non-integer atom index returns `a` itself -/
theorem index_degenerate_witness :
    (implIndex (.str [97, 98]) (.list [])).is (.str []) = true ∧
    (implIndex (.list [i 1, i 2]) (.sym [97])).is (.list [i 1, i 2]) = true := by decide

/-- deviation (known finding mixed-numeric-level): [1 "a" 0.5]@[0 2] is re-packed as a float array -/
theorem index_mixed_witness :
    (match implIndex (.list [i 1, .str [97], half]) (.list [i 0, i 2]) with
     | .ok (.list [.real _, .real _]) => true | _ => false) = true ∧
    (match refIndex (.list [i 1, .str [97], half]) (.list [i 0, i 2]) with
     | some (.list [.int 1, .real _]) => true | _ => false) = true := by decide

/-- deviation (same finding): 1,0.5 is [1.0 0.5] -/
theorem join_mixed_witness :
    (match implJoin (i 1) half with | .ok (.list [.real _, .real _]) => true | _ => false) = true ∧
    (match refJoin (i 1) half with | some (.list [.int 1, .real _]) => true | _ => false) = true := by decide

/-- deviation: numpy raises while re-packing [[1 2]],[[[3 4] [5 6]]] (members agree on the leading
    dimension only) and in np.concatenate for rank-3 operands with different middle dimensions;
    the reference appends -/
theorem join_raises_witness :
    Res.isErr (implJoin (.list [.list [i 1, i 2]]) (.list [.list [.list [i 3, i 4], .list [i 5, i 6]]])) = true ∧
    (refJoin (.list [.list [i 1, i 2]]) (.list [.list [.list [i 3, i 4], .list [i 5, i 6]]])).isSome = true ∧
    Res.isErr (implJoin (.list [.list [.list [i 1, i 2], .list [i 3, i 4], .list [i 5, i 6]]])
      (.list [.list [.list [i 1, i 2]]])) = true := by decide

/-- klongpy identifies a character with the one-character string (KGChar is a str) -/
theorem match_charstr_witness :
    (implMatch (.chr 97) (.str [97])).is (i 1) = true ∧ vmatch (.chr 97) (.str [97]) = false ∧
    (implFind (.list [.chr 97, .chr 98]) (.str [97])).is (.list [i 0]) = true := by decide

/-- Python slicing semantics of np.array_split outside the reference's domain -/
theorem cut_outside_witness :
    (implCut (i (-1)) (.list [i 1, i 2, i 3, i 4])).is (.list [.list [i 1, i 2, i 3], .list [i 4]]) = true ∧
    (implCut (.list [i 3, i 1]) (.list [i 1, i 2, i 3, i 4])).is
      (.list [.list [i 1, i 2, i 3], .list [], .list [i 2, i 3, i 4]]) = true ∧
    (implCut (i 0) (.list [])).is (.list [.list []]) = true ∧
    (implCut (i 0) (.str [])).is (.list [.str []]) = true := by decide

/-- non-vacuity: the manual's examples -/
theorem examples_witness :
    (implCut (.list [i 2, i 3, i 5]) (.str [97, 98, 99, 100, 101, 102])).is
      (.list [.str [97, 98], .str [99], .str [100, 101], .str [102]]) = true ∧
    (implCut (.list [i 1, i 1]) (.list [i 1, i 2])).is (.list [.list [i 1], .list [], .list [i 2]]) = true ∧
    (implJoin (.chr 97) (.str [98, 99])).is (.str [97, 98, 99]) = true ∧
    (implJoin (.list [.list [i 1, i 2, i 3]]) (i 4)).is (.list [.list [i 1, i 2, i 3], i 4]) = true ∧
    (implFind (.str [120, 121, 121, 121, 121, 122]) (.str [121, 121])).is (.list [i 1, i 2, i 3]) = true ∧
    (implFind (.str []) (.str [])).is (.list [i 0]) = true ∧
    (implFind (.list [i 1, i 2, i 3, i 1, i 2, i 1]) (i 1)).is (.list [i 0, i 3, i 5]) = true ∧
    (implFind (.list [i 1, .list [i 2], i 3]) (.list [i 2])).is (.list [i 1]) = true ∧
    (implMatch (.list [i 1, .list [i 2], i 3]) (.list [i 1, .list [i 4], i 3])).is (i 0) = true ∧
    (implMatch (i 100000) (i 100001)).is (i 0) = true ∧
    (implMonad "!" (i (-3))).is (.list []) = true ∧
    (implMonad "~" (.str [97, 98])).is (i 0) = true ∧
    (implMonad "~" (.list [i 0, .list [i 1, i 0]])).is (.list [i 1, .list [i 0, i 1]]) = true ∧
    (implMonad "#" (.sym [97, 98])).is (i 2) = true := by decide

end Klong.C01.Ext1
