/-
  C01 extension 2 — implementation model (numpy calls as list functions) = reference, per verb,
  for every list length and every count.
-/
import Klong.Model.C01Ext2
import Klong.Props.C01Struct
namespace Klong.C01.Ext2
open Klong Klong.C01

/-- Bool view of a model result, for `decide`d examples (`Val` has no `DecidableEq`) -/
def _root_.Klong.C01.Res.isOk (r : Res) (v : Val) : Bool :=
  match r with
  | .ok w => w == v
  | _ => false

/-! ## operand classes -/

theorem asInts_eq {xs : List Val} {ns : List Int} (h : asInts xs = some ns) : xs = ns.map .int := by
  induction xs generalizing ns with
  | nil => simp [asInts] at h; subst h; rfl
  | cons x xs ih =>
    cases x <;> simp [asInts] at h
    obtain ⟨r, hr, rfl⟩ := h
    simp [ih hr]

theorem asInts_map (ns : List Int) : asInts (ns.map .int) = some ns := by
  induction ns with
  | nil => rfl
  | cons n ns ih => simp [asInts, ih]

/-! ## Expand / Where -/

theorem refExpand_go (cs : List Nat) (i : Nat) :
    ((cs.zipIdx i).map fun (c, j) => List.replicate c (Val.int (j : Nat))).flatten
      = npRepeatArange i cs := by
  induction cs generalizing i with
  | nil => simp [npRepeatArange]
  | cons c cs ih =>
    simp only [List.zipIdx_cons, List.map_cons, List.flatten_cons, npRepeatArange]
    rw [ih]

/-- `np.repeat(np.arange(len a), a)` is Expand: index `i` included `a[i]` times -/
theorem npRepeatArange_eq_refExpand (cs : List Nat) : npRepeatArange 0 cs = refExpand cs := by
  unfold refExpand
  exact (refExpand_go cs 0).symm

theorem natList_of_asInts {xs : List Val} {ns : List Int} (h : asInts xs = some ns) :
    natList xs = if ns.any (· < 0) then none else some (ns.map Int.toNat) := by
  induction xs generalizing ns with
  | nil => simp [asInts] at h; subst h; simp [natList]
  | cons x xs ih =>
    cases x <;> simp [asInts] at h
    obtain ⟨r, hr, rfl⟩ := h
    rename_i n
    simp only [natList, ih hr, List.any_cons, List.map_cons]
    by_cases hn : n < 0
    · simp [hn]
    · by_cases hr' : r.any (· < 0) <;> simp [hn, hr']

theorem natList_asInts {xs : List Val} {cs : List Nat} (h : natList xs = some cs) :
    ∃ ns, asInts xs = some ns := by
  induction xs generalizing cs with
  | nil => exact ⟨[], rfl⟩
  | cons x xs ih =>
    cases x <;> simp [natList] at h
    obtain ⟨_, r, hr, _⟩ := h
    obtain ⟨ns, hns⟩ := ih hr
    rename_i n _ _
    exact ⟨n :: ns, by simp [asInts, hns]⟩

/-- **expand_correct**: wherever the reference defines Expand/Where (an integer ≥ 0, a list of
    integers ≥ 0 of any length, the empty list) the implementation model returns that value -/
theorem expand_correct (a v : Val) (h : refMonad "&" a = some v) : implMonad "&" a = .ok v := by
  cases a with
  | int n =>
    simp only [refMonad] at h
    simp only [implMonad, implExpand]
    split at h
    · simp at h
    · rename_i hn
      simp only [Option.some.injEq] at h
      subst h
      simp [hn, npRepeatArange]
  | list xs =>
    simp only [refMonad] at h
    cases hx : natList xs with
    | none => simp [hx] at h
    | some cs =>
      simp only [hx, Option.map_some, Option.some.injEq] at h
      subst h
      obtain ⟨ns, hns⟩ := natList_asInts hx
      have h2 := natList_of_asInts hns
      rw [hx] at h2
      cases xs with
      | nil =>
        simp [natList] at hx
        subst hx
        simp [implMonad, implExpand, refExpand]
      | cons x xs =>
        simp only [implMonad, implExpand, hns]
        split at h2
        · simp at h2
        · rename_i hneg
          simp only [Option.some.injEq] at h2
          simp only [hneg]
          rw [← h2, npRepeatArange_eq_refExpand]
          rfl
  | _ => simp [refMonad] at h

example : (implExpand (.list [.int 1, .int 0, .int 2])).isOk (.list [.int 0, .int 2, .int 2]) = true := by
  decide

/-! ## Floor -/

/-- **floor_correct**: Floor of an integer is the integer (within the float64-exact range the
    model states explicitly) -/
theorem floor_correct (n : Int) (h : floorExact n = true) :
    implMonad "_" (.int n) = .ok (.int n) ∧ refMonad "_" (.int n) = some (.int n) := by
  simp [implMonad, implFloor, refMonad, h]

example : (implFloor (.int (-7))).isOk (.int (-7)) = true := by decide

/-! ## Transpose -/

theorem asRows_eq {xs : List Val} {rows : List (List Val)} (h : asRows xs = some rows) :
    xs = rows.map .list := by
  induction xs generalizing rows with
  | nil => simp [asRows] at h; subst h; rfl
  | cons x xs ih =>
    cases x <;> simp [asRows] at h
    obtain ⟨r, hr, rfl⟩ := h
    simp [ih hr]

theorem mapM_eq_asRows (f : Val → Option (List Val)) (hl : ∀ ys, f (.list ys) = some ys)
    (hn : ∀ r, (∀ ys, r ≠ .list ys) → f r = none) (xs : List Val) : xs.mapM f = asRows xs := by
  induction xs with
  | nil => rfl
  | cons x xs ih =>
    rw [List.mapM_cons, ih]
    cases x <;> first
      | (rw [hn _ (by intro ys h; cases h)]; rfl)
      | (rw [hl]; simp only [asRows]; cases asRows xs <;> rfl)

/-- `np.transpose` index arithmetic = the reference's column extraction, for any matrix size -/
theorem npTranspose2_eq (r : List Val) (rs : List (List Val)) (hne : r ≠ [])
    (hlen : ∀ row ∈ r :: rs, row.length = r.length) :
    npTranspose2 (r :: rs) r.length = transposeRows (r :: rs) := by
  unfold npTranspose2 transposeRows
  have : r.isEmpty = false := by cases r <;> simp_all
  simp only [this, Bool.false_eq_true, if_false]
  apply List.map_congr_left
  intro j hj
  have hj' : j < r.length := by simpa using hj
  generalize r :: rs = rows at hlen
  induction rows with
  | nil => rfl
  | cons row rows ih =>
    have h1 : row.length = r.length := hlen row (by simp)
    have h2 : j < row.length := by omega
    simp only [List.map_cons, List.filterMap_cons, List.getElem?_eq_getElem h2]
    rw [ih (fun x hx => hlen x (by simp [hx]))]
    simp [List.getD_eq_getElem?_getD, List.getElem?_eq_getElem h2]

/-- **transpose_correct**: wherever the reference defines Transpose (a matrix of atoms, any
    size; the empty list) and the operand is in a modelled class, `np.transpose` gives the
    reference's value -/
theorem transpose_correct (a v : Val) (h : refMonad "+" a = some v) :
    implMonad "+" a = .unmodelled ∨ implMonad "+" a = .ok v := by
  cases a with
  | list xs =>
    cases xs with
    | nil =>
      simp [refMonad] at h
      subst h
      right
      simp [implMonad, implTranspose]
    | cons x xs =>
      unfold refMonad at h
      simp only at h
      rw [mapM_eq_asRows _ (fun _ => rfl)
        (by intro r hr; cases r <;> first | rfl | exact absurd rfl (hr _))] at h
      cases hrows : asRows (x :: xs) with
      | none => simp [hrows] at h
      | some rs =>
        simp only [hrows] at h
        split at h
        · rename_i hc
          simp only [Option.some.injEq] at h
          subst h
          simp only [implMonad, implTranspose, hrows]
          split
          · split
            · -- rank 1 branch cannot hold: the first member is a list
              rename_i h1 _
              have := asRows_eq hrows
              cases rs with
              | nil => simp at this
              | cons r rs' =>
                simp at this
                obtain ⟨rfl, _⟩ := this
                simp [isScalarMember] at h1
            · left; rfl
          · split
            · right
              rename_i hc2
              cases rs with
              | nil => have := asRows_eq hrows; simp at this
              | cons r rs' =>
                simp only [List.headD_cons, Bool.and_eq_true, decide_eq_true_eq, List.all_eq_true,
                  beq_iff_eq] at hc2
                obtain ⟨⟨⟨hpos, hlen⟩, _⟩, _⟩ := hc2
                have hne : r ≠ [] := by intro h0; subst h0; simp at hpos
                simp only [List.headD_cons]
                rw [npTranspose2_eq r rs' hne hlen]
            · left; rfl
        · simp at h
  | _ => simp [refMonad] at h

example : (implTranspose (.list [.list [.int 1, .int 2, .int 3], .list [.int 4, .int 5, .int 6]])).isOk
    (.list [.list [.int 1, .int 4], .list [.int 2, .int 5], .list [.int 3, .int 6]]) = true := by
  decide

/-! ## sorting -/

theorem insertBy_perm {α} (le : α → α → Bool) (x : α) (l : List α) :
    (insertBy le x l).Perm (x :: l) := by
  induction l with
  | nil => exact List.Perm.refl _
  | cons y ys ih =>
    unfold insertBy
    split
    · exact List.Perm.refl _
    · exact (List.Perm.cons y ih).trans (List.Perm.swap x y ys)

theorem isort_perm {α} (le : α → α → Bool) (l : List α) : (isort le l).Perm l := by
  induction l with
  | nil => exact List.Perm.refl _
  | cons x xs ih => exact (insertBy_perm le x _).trans (List.Perm.cons x ih)

theorem insertBy_pairwise {α} (le : α → α → Bool)
    (htot : ∀ a b, le a b = false → le b a = true)
    (htr : ∀ a b c, le a b = true → le b c = true → le a c = true) (x : α) (l : List α)
    (h : l.Pairwise (fun a b => le a b = true)) :
    (insertBy le x l).Pairwise (fun a b => le a b = true) := by
  induction l with
  | nil => simp [insertBy]
  | cons y ys ih =>
    rw [List.pairwise_cons] at h
    unfold insertBy
    split
    · rename_i hxy
      rw [List.pairwise_cons]
      refine ⟨?_, List.pairwise_cons.mpr h⟩
      intro z hz
      rcases List.mem_cons.mp hz with rfl | hz
      · exact hxy
      · exact htr _ _ _ hxy (h.1 z hz)
    · rename_i hxy
      rw [List.pairwise_cons]
      refine ⟨?_, ih h.2⟩
      intro z hz
      have hz' := (insertBy_perm le x ys).subset hz
      rcases List.mem_cons.mp hz' with rfl | hz'
      · exact htot _ _ (by simpa using hxy)
      · exact h.1 z hz'

/-- the result of the sort is ordered -/
theorem isort_pairwise {α} (le : α → α → Bool)
    (htot : ∀ a b, le a b = false → le b a = true)
    (htr : ∀ a b c, le a b = true → le b c = true → le a c = true) (l : List α) :
    (isort le l).Pairwise (fun a b => le a b = true) := by
  induction l with
  | nil => simp [isort]
  | cons x xs ih => exact insertBy_pairwise le htot htr x _ ih

theorem lexLe_total (p q : Int × Nat) : lexLe p q = false → lexLe q p = true := by
  rcases p with ⟨a, i⟩
  rcases q with ⟨b, j⟩
  simp [lexLe]
  omega

theorem lexLe_trans (p q r : Int × Nat) : lexLe p q = true → lexLe q r = true → lexLe p r = true := by
  rcases p with ⟨a, i⟩
  rcases q with ⟨b, j⟩
  rcases r with ⟨c, k⟩
  simp [lexLe]
  omega

/-! ## Grade-Up / Grade-Down

  The manual: "Return a list of indices reflecting the desired order", "to sort a list a, use
  a@<a".  The reference therefore accepts ANY permutation of the indices that puts the elements
  in order (`IsGrade`); the order among equal elements is not prescribed. -/

/-- acceptance relation of the reference: `r` is a permutation of 0..n-1 and `keys@r` is
    ascending (descending for Grade-Down) -/
def IsGrade (down : Bool) (keys : List Int) (r : List Nat) : Prop :=
  r.Perm (List.range keys.length) ∧
  (r.map fun i => keys.getD i 0).Pairwise (fun a b => if down then b ≤ a else a ≤ b)

theorem sorted_pairs (keys : List Int) :
    (isort lexLe keys.zipIdx).Pairwise (fun p q => lexLe p q = true) :=
  isort_pairwise lexLe lexLe_total lexLe_trans _

theorem sorted_pairs_mem (keys : List Int) (p : Int × Nat) (hp : p ∈ isort lexLe keys.zipIdx) :
    keys.getD p.2 0 = p.1 ∧ p.2 < keys.length := by
  have h1 := (isort_perm lexLe keys.zipIdx).subset hp
  rw [List.mem_zipIdx_iff_getElem?] at h1
  have h2 : p.2 < keys.length := by
    rcases Nat.lt_or_ge p.2 keys.length with h | h
    · exact h
    · rw [List.getElem?_eq_none h] at h1; cases h1
  exact ⟨by rw [List.getD_eq_getElem?_getD, h1]; rfl, h2⟩

theorem npArgsort_perm (keys : List Int) : (npArgsort keys).Perm (List.range keys.length) := by
  unfold npArgsort
  have h := (isort_perm lexLe keys.zipIdx).map (·.2)
  have e : keys.zipIdx.map (·.2) = List.range keys.length := by
    rw [List.range_eq_range']
    exact List.zipIdx_map_snd 0 keys
  rw [e] at h
  exact h

theorem npArgsort_keys (keys : List Int) :
    (npArgsort keys).map (fun i => keys.getD i 0) = (isort lexLe keys.zipIdx).map (·.1) := by
  unfold npArgsort
  rw [List.map_map]
  apply List.map_congr_left
  intro p hp
  exact (sorted_pairs_mem keys p hp).1

theorem npArgsort_sorted (keys : List Int) :
    ((npArgsort keys).map fun i => keys.getD i 0).Pairwise (· ≤ ·) := by
  rw [npArgsort_keys]
  apply List.Pairwise.map _ _ (sorted_pairs keys)
  intro p q h
  rcases p with ⟨a, i⟩
  rcases q with ⟨b, j⟩
  simp [lexLe] at h
  show a ≤ b
  omega

/-- **grade_sorts**: the modelled Grade-Up is a permutation of 0..n-1 that puts the elements
    in ascending order, Grade-Down one that puts them in descending order — for every vector
    length, with or without repeated elements -/
theorem grade_sorts (keys : List Int) :
    IsGrade false keys (gradeUp keys) ∧ IsGrade true keys (gradeDown keys) := by
  refine ⟨⟨npArgsort_perm keys, ?_⟩, ⟨?_, ?_⟩⟩
  · simpa [gradeUp] using npArgsort_sorted keys
  · exact (List.reverse_perm _).trans (npArgsort_perm keys)
  · unfold gradeDown
    rw [List.map_reverse, List.pairwise_reverse]
    simpa using npArgsort_sorted keys

/-- **grade_stable**: among equal elements the model lists the positions in ascending order
    (Grade-Down: descending) — Python's `sorted` on `(a[x], x)` keys, as `kg_argsort` documents -/
theorem grade_stable (keys : List Int) :
    (gradeUp keys).Pairwise (fun i j => keys.getD i 0 = keys.getD j 0 → i < j) ∧
    (gradeDown keys).Pairwise (fun i j => keys.getD i 0 = keys.getD j 0 → j < i) := by
  have hnd : (npArgsort keys).Pairwise (· ≠ ·) :=
    ((npArgsort_perm keys).nodup_iff.mpr List.nodup_range)
  have hs : (npArgsort keys).Pairwise (fun i j => keys.getD i 0 = keys.getD j 0 → i ≤ j) := by
    unfold npArgsort
    rw [List.pairwise_map]
    apply List.Pairwise.imp_of_mem _ (sorted_pairs keys)
    intro p q hp hq h he
    rw [(sorted_pairs_mem keys p hp).1, (sorted_pairs_mem keys q hq).1] at he
    rcases p with ⟨a, i⟩
    rcases q with ⟨b, j⟩
    simp [lexLe] at h
    simp at he
    show i ≤ j
    omega
  have hup : (npArgsort keys).Pairwise (fun i j => keys.getD i 0 = keys.getD j 0 → i < j) :=
    (hnd.and hs).imp (fun ⟨h1, h2⟩ he => Nat.lt_of_le_of_ne (h2 he) h1)
  refine ⟨hup, ?_⟩
  unfold gradeDown
  rw [List.pairwise_reverse]
  exact hup.imp (fun h he => h he.symm)

/-- on distinct elements the sorting permutation is unique: this is what justifies modelling
    `np.argsort` (numpy's default, not stable, sort) by the stable sort on integer vectors
    without repeated elements -/
theorem grade_unique (keys : List Int) (hnd : keys.Nodup) (r : List Nat)
    (h : IsGrade false keys r) : r = gradeUp keys := by
  obtain ⟨hp, hs⟩ := h
  have hg := (grade_sorts keys).1
  apply List.Perm.eq_of_pairwise (le := fun i j => keys.getD i 0 ≤ keys.getD j 0)
  · intro i j hi hj h1 h2
    have hi' : i < keys.length := by simpa using hp.subset hi
    have hj' : j < keys.length := by simpa using hg.1.subset hj
    have he : keys.getD i 0 = keys.getD j 0 := Int.le_antisymm h1 h2
    exact (List.getD_inj hi' hj' hnd).mp he
  · simpa [List.pairwise_map] using hs
  · simpa [List.pairwise_map] using hg.2
  · exact hp.trans hg.1.symm

/-- the keys Grade compares: the characters of a string, the members of an integer vector -/
def gradeKeys : Val → Option (List Int)
  | .str cs => some (cs.map fun (c : Nat) => (c : Int))
  | .list xs => asInts xs
  | _ => none

/-- **grade_correct**: on strings and integer vectors of any length, what the model returns for
    `<a` / `>a` is accepted by the reference (or the operand class — repeated integers — is
    explicitly not modelled) -/
theorem grade_correct (down : Bool) (a : Val) (keys : List Int) (hk : gradeKeys a = some keys) :
    implGrade down a = .unmodelled ∨
    ∃ r, implGrade down a = .ok (.list (ofNats r)) ∧ IsGrade down keys r := by
  have hboth := grade_sorts keys
  have hsel : IsGrade down keys (if down then gradeDown keys else gradeUp keys) := by
    cases down
    · exact hboth.1
    · exact hboth.2
  cases a with
  | str cs =>
    simp only [gradeKeys, Option.some.injEq] at hk
    cases cs with
    | nil =>
      subst hk
      right
      exact ⟨[], by simp [implGrade, ofNats], by simp [IsGrade]⟩
    | cons c cs =>
      right
      refine ⟨_, ?_, hsel⟩
      simp only [implGrade, hk]
  | list xs =>
    simp only [gradeKeys] at hk
    cases xs with
    | nil =>
      simp [asInts] at hk
      subst hk
      right
      exact ⟨[], by simp [implGrade, ofNats], by simp [IsGrade]⟩
    | cons x xs =>
      simp only [implGrade, hk]
      split
      · right; exact ⟨_, rfl, hsel⟩
      · left; rfl
  | _ => simp [gradeKeys] at hk

/-- "hello, world": the manual's example, ties ('l', 'o') by position -/
example : (implGrade false (.str [104, 101, 108, 108, 111, 44, 32, 119, 111, 114, 108, 100])).isOk
    (.list (ofNats [6, 5, 11, 1, 0, 2, 3, 10, 4, 8, 9, 7])) = true := by decide
example : (implGrade true (.list [.int 5, .int (-3), .int 2, .int 7])).isOk
    (.list (ofNats [3, 0, 2, 1])) = true := by decide

/-! ## Range -/

theorem refRange_sub {α} (eq : α → α → Bool) (xs : List α) : ∀ y ∈ refRange eq xs, y ∈ xs := by
  induction xs with
  | nil => intro y hy; simp [refRange] at hy
  | cons x xs ih =>
    intro y hy
    simp only [refRange, List.mem_cons, List.mem_filter] at hy
    rcases hy with rfl | ⟨hy, _⟩
    · simp
    · exact List.mem_cons_of_mem _ (ih y hy)

/-- the `set()` loop (keys already seen are skipped) is the reference's Range whenever equal
    keys mean Match: the general step, with the set built so far -/
theorem pyDedupBy_eq {α κ} [BEq κ] [LawfulBEq κ] (key : α → κ) (eq : α → α → Bool) (xs : List α)
    (h : ∀ x ∈ xs, ∀ y ∈ xs, eq x y = (key x == key y)) (seen : List κ) :
    pyDedupBy key seen xs = (refRange eq xs).filter (fun y => !seen.contains (key y)) := by
  induction xs generalizing seen with
  | nil => simp [pyDedupBy, refRange]
  | cons x xs ih =>
    have hxs : ∀ a ∈ xs, ∀ b ∈ xs, eq a b = (key a == key b) :=
      fun a ha b hb => h a (List.mem_cons_of_mem _ ha) b (List.mem_cons_of_mem _ hb)
    unfold pyDedupBy
    simp only [refRange]
    split
    · rename_i hs
      rw [ih hxs, List.filter_cons]
      simp only [hs, Bool.not_true, Bool.false_eq_true, if_false, List.filter_filter]
      apply List.filter_congr
      intro y hy
      have hy' := refRange_sub eq xs y hy
      rw [h x (by simp) y (List.mem_cons_of_mem _ hy')]
      cases hc : seen.contains (key y)
      · simp only [Bool.not_false, Bool.true_and]
        have : key x ≠ key y := by
          intro he
          rw [he] at hs
          rw [hs] at hc
          cases hc
        simp [this]
      · simp
    · rename_i hs
      rw [ih hxs, List.filter_cons]
      simp only [hs, Bool.not_false, if_true, List.filter_filter]
      congr 1
      apply List.filter_congr
      intro y hy
      have hy' := refRange_sub eq xs y hy
      rw [h x (by simp) y (List.mem_cons_of_mem _ hy')]
      simp only [List.contains_cons]
      rw [BEq.comm (a := key x)]
      cases seen.contains (key y) <;> cases (key y == key x) <;> rfl

theorem pyDedupBy_eq_refRange {α κ} [BEq κ] [LawfulBEq κ] (key : α → κ) (eq : α → α → Bool)
    (xs : List α) (h : ∀ x ∈ xs, ∀ y ∈ xs, eq x y = (key x == key y)) :
    pyDedupBy key [] xs = refRange eq xs := by
  rw [pyDedupBy_eq key eq xs h]
  simp

theorem refRange_map {α β} (f : α → β) (eq : α → α → Bool) (eq' : β → β → Bool)
    (h : ∀ a b, eq' (f a) (f b) = eq a b) (l : List α) :
    refRange eq' (l.map f) = (refRange eq l).map f := by
  induction l with
  | nil => rfl
  | cons x xs ih =>
    simp only [List.map_cons, refRange, ih, List.filter_map]
    congr 2
    apply List.filter_congr
    intro y _
    simp [h]

theorem vmatch_chr (a b : Nat) : vmatch (.chr a) (.chr b) = (a == b) := by
  simp [vmatch, toF]
  rfl

theorem joinChars_chr (cs : List Nat) : joinChars (cs.map .chr) = some cs := by
  induction cs with
  | nil => rfl
  | cons c cs ih => simp [joinChars, ih]

theorem refRange_strChars (cs : List Nat) :
    refRange vmatch (strChars cs) = (refRange (· == ·) cs).map Val.chr :=
  refRange_map Val.chr (· == ·) vmatch vmatch_chr cs

/-- **range_str_correct**: `''.join(dict.fromkeys(a))` is Range on every string -/
theorem range_str_correct (cs : List Nat) :
    refMonad "?" (.str cs) = some (.str (refRange (· == ·) cs)) ∧
    implMonad "?" (.str cs) = .ok (.str (refRange (· == ·) cs)) := by
  constructor
  · simp only [refMonad, refRange_strChars, joinChars_chr, Option.map_some]
  · simp only [implMonad, implRange]
    rw [pyDedupBy_eq_refRange id (· == ·) cs (fun _ _ _ _ => rfl)]

theorem any_ints (p : Val → Bool) (hp : ∀ n, p (.int n) = false) (ns : List Int) :
    (ns.map Val.int).any p = false := by
  induction ns with
  | nil => rfl
  | cons n ns ih => simp [hp, ih]

theorem vmatch_int (a b : Int) : vmatch (.int a) (.int b) = (a == b) := by
  simp [vmatch]

theorem refRange_ints (ns : List Int) :
    refRange vmatch (ns.map Val.int) = (refRange (· == ·) ns).map Val.int :=
  refRange_map Val.int (· == ·) vmatch vmatch_int ns

/-- **range_ints_correct**: the `set()`-of-`str(x)` loop over an integer vector of any length is
    the reference's Range (unique elements in order of appearance) -/
theorem range_ints_correct (ns : List Int) :
    refMonad "?" (.list (ns.map .int)) = some (.list ((refRange (· == ·) ns).map .int)) ∧
    implMonad "?" (.list (ns.map .int)) = .ok (.list ((refRange (· == ·) ns).map .int)) := by
  constructor
  · simp only [refMonad, refRange_ints]
    rw [any_ints _ (fun _ => rfl)]
    simp
  cases ns with
  | nil => simp [implMonad, implRange, refRange]
  | cons n ns =>
    have h := asInts_map (n :: ns)
    simp only [List.map_cons] at h
    simp only [implMonad, List.map_cons, implRange, h, ofInts]
    rw [pyDedupBy_eq_refRange id (· == ·) (n :: ns) (fun _ _ _ _ => rfl)]

/-- equal loop keys `(is_number, is KGSym, is_list, str(x))` mean Match, on the members of the
    operand (Bool-valued, computable) -/
def strFaithful (xs : List Val) : Bool :=
  xs.all fun x => xs.all fun y => vmatch x y == (rangeKey x == rangeKey y)

/-- **range_obj_correct**: on an object vector (integers, characters, strings, symbols mixed)
    the `set()` loop keyed by `(is_number, is KGSym, is_list, str(x))` is the reference's Range,
    PROVIDED no two members that do not match have the same key.  After 69a7d58 the only such
    pair among the modelled members is a character and the one-character string with the same
    text — lists holding both a character and a string are outside the reference anyway. -/
theorem range_obj_correct (xs : List Val) (v : Val) (href : refMonad "?" (.list xs) = some v)
    (h1 : asInts xs = none) (h2 : asIntRows xs = none)
    (h3 : xs.all (fun x => (pyStr x).isSome) = true) (hf : strFaithful xs = true) :
    implMonad "?" (.list xs) = .ok v := by
  simp only [refMonad] at href
  split at href
  · cases href
  simp only [Option.some.injEq] at href
  subst href
  cases xs with
  | nil => simp [asInts] at h1
  | cons x xs =>
    simp only [implMonad, implRange, h1, h2, h3, if_true]
    rw [pyDedupBy_eq_refRange rangeKey vmatch (x :: xs)]
    intro a ha b hb
    simp only [strFaithful, List.all_eq_true, beq_iff_eq] at hf
    exact hf a ha b hb

/-- the repaired behaviour (69a7d58): an integer and its decimal string, a symbol and its name
    print alike but are kept apart — `?[-12 "-12" -12]` is `[-12 "-12"]`, `?[:a "a"]` is
    `[:a "a"]` — and such lists satisfy the hypothesis of `range_obj_correct` -/
theorem range_kinds_kept :
    strFaithful [.int (-12), .str [45, 49, 50], .int (-12)] = true ∧
    (implRange (.list [.int (-12), .str [45, 49, 50], .int (-12)])).isOk
      (.list [.int (-12), .str [45, 49, 50]]) = true ∧
    strFaithful [.sym [97], .str [97]] = true ∧
    (implRange (.list [.sym [97], .str [97]])).isOk (.list [.sym [97], .str [97]]) = true := by
  decide

/-- the remaining excluded class is real: a character and the one-character string with the
    same text still have the same key, so the code drops the second — `?["a" 0ca]` is `["a"]`
    (klongpy's own character/string identity; the reference compares them with Match) -/
theorem range_chr_str_collision :
    strFaithful [.str [97], .chr 97] = false ∧
    (implRange (.list [.str [97], .chr 97])).isOk (.list [.str [97]]) = true ∧
    (refRange vmatch [.str [97], .chr 97]).length = 2 := by decide

example : strFaithful [.int 1, .str [97], .sym [98], .chr 120] = true := by decide

/-! ## order of first appearance (shared by Range on matrices and Group) -/

section firstOrder
variable {α : Type} [BEq α] [LawfulBEq α]

theorem idxOf_cons_ne {x y : α} (h : x ≠ y) (xs : List α) :
    (x :: xs).idxOf y = xs.idxOf y + 1 := by
  have : (x == y) = false := by simpa using h
  rw [List.idxOf_cons, this]
  rfl

theorem idxOf_getElem? {xs : List α} {a : α} (ha : a ∈ xs) : xs[xs.idxOf a]? = some a := by
  rw [List.getElem?_eq_getElem (List.idxOf_lt_length_of_mem ha)]
  simp

theorem idxOf_inj {xs : List α} {a b : α} (ha : a ∈ xs) (hb : b ∈ xs)
    (h : xs.idxOf a = xs.idxOf b) : a = b := by
  have e1 := idxOf_getElem? ha
  have e2 := idxOf_getElem? hb
  rw [h, e2] at e1
  exact (Option.some.inj e1).symm

theorem getD_idxOf {xs : List α} {a : α} (d : α) (ha : a ∈ xs) : xs.getD (xs.idxOf a) d = a := by
  rw [List.getD_eq_getElem?_getD, idxOf_getElem? ha]
  rfl

theorem mem_refRange (xs : List α) (y : α) : y ∈ refRange (· == ·) xs ↔ y ∈ xs := by
  refine ⟨refRange_sub _ xs y, ?_⟩
  induction xs with
  | nil => intro h; cases h
  | cons x xs ih =>
    intro h
    simp only [refRange, List.mem_cons, List.mem_filter]
    by_cases hxy : y = x
    · left; exact hxy
    · right
      rcases List.mem_cons.mp h with h | h
      · exact absurd h hxy
      · exact ⟨ih h, by simpa using fun h' => hxy h'.symm⟩

/-- the reference's Range lists the distinct elements in strictly increasing order of their
    first position -/
theorem refRange_idxOf_lt (xs : List α) :
    ((refRange (· == ·) xs).map (xs.idxOf ·)).Pairwise (· < ·) := by
  induction xs with
  | nil => simp [refRange]
  | cons x xs ih =>
    simp only [refRange, List.map_cons, List.pairwise_cons, List.idxOf_cons_self]
    have hne : ∀ y ∈ (refRange (· == ·) xs).filter (fun y => !(x == y)), x ≠ y := by
      intro y hy
      simp only [List.mem_filter, Bool.not_eq_true', beq_eq_false_iff_ne] at hy
      exact hy.2
    have hmap : ((refRange (· == ·) xs).filter (fun y => !(x == y))).map ((x :: xs).idxOf ·)
        = (((refRange (· == ·) xs).filter (fun y => !(x == y))).map (xs.idxOf ·)).map (· + 1) := by
      rw [List.map_map]
      apply List.map_congr_left
      intro y hy
      exact idxOf_cons_ne (hne y hy) xs
    constructor
    · intro i hi
      rw [hmap] at hi
      obtain ⟨j, _, rfl⟩ := List.mem_map.mp hi
      omega
    · rw [hmap]
      apply List.Pairwise.map _ (fun a b (h : a < b) => by omega)
      exact List.Pairwise.sublist (List.Sublist.map _ List.filter_sublist) ih

theorem refRange_nodup (xs : List α) : (refRange (· == ·) xs).Nodup := by
  have h := List.pairwise_map.mp (refRange_idxOf_lt xs)
  exact h.imp (fun hlt he => by subst he; exact Nat.lt_irrefl _ hlt)

/-- a list holding the distinct elements of `xs`, ordered by first position, IS Range -/
theorem eq_refRange_of_perm_sorted (xs W : List α) (hp : W.Perm (refRange (· == ·) xs))
    (hs : (W.map (xs.idxOf ·)).Pairwise (· ≤ ·)) : W = refRange (· == ·) xs := by
  apply List.Perm.eq_of_pairwise (le := fun a b => xs.idxOf a ≤ xs.idxOf b)
  · intro a b ha hb h1 h2
    have ha' : a ∈ xs := (mem_refRange xs a).mp (hp.subset ha)
    have hb' : b ∈ xs := (mem_refRange xs b).mp hb
    exact idxOf_inj ha' hb' (Nat.le_antisymm h1 h2)
  · exact List.pairwise_map.mp hs
  · exact (List.pairwise_map.mp (refRange_idxOf_lt xs)).imp Nat.le_of_lt
  · exact hp

theorem pyDedup_id (xs : List α) : pyDedupBy id [] xs = refRange (· == ·) xs :=
  pyDedupBy_eq_refRange id (· == ·) xs (fun _ _ _ _ => rfl)

end firstOrder

theorem natLe_total (a b : Nat) : natLe a b = false → natLe b a = true := by
  simp [natLe]; omega

theorem natLe_trans (a b c : Nat) : natLe a b = true → natLe b c = true → natLe a c = true := by
  simp [natLe]; omega

/-- the rank-2 path of Range (`np.unique(axis=0, return_index=True)`, `ids.sort()`, `a[ids]`)
    yields the distinct rows in order of first appearance, for any number of rows -/
theorem implRangeRows_eq (rows : List (List Int)) :
    implRangeRows rows = refRange (· == ·) rows := by
  unfold implRangeRows npUnique
  simp only [pyDedup_id]
  generalize hv : isort rowLe (refRange (· == ·) rows) = vals
  have hvp : vals.Perm (refRange (· == ·) rows) := hv ▸ isort_perm _ _
  have hvm : ∀ v ∈ vals, v ∈ rows := fun v h => (mem_refRange rows v).mp (hvp.subset h)
  generalize hi : isort natLe (vals.map fun v => rows.idxOf v) = ids
  have hip : ids.Perm (vals.map fun v => rows.idxOf v) := hi ▸ isort_perm _ _
  have his : ids.Pairwise (fun a b => natLe a b = true) :=
    hi ▸ isort_pairwise natLe natLe_total natLe_trans _
  apply eq_refRange_of_perm_sorted
  · have h1 := hip.map (fun i => rows.getD i [])
    rw [List.map_map] at h1
    have h2 : vals.map ((fun i => rows.getD i []) ∘ fun v => rows.idxOf v) = vals := by
      have : vals.map ((fun i => rows.getD i []) ∘ fun v => rows.idxOf v) = vals.map id :=
        List.map_congr_left (fun v hv => getD_idxOf [] (hvm v hv))
      rw [this, List.map_id]
    rw [h2] at h1
    exact h1.trans hvp
  · have h3 : (ids.map fun i => rows.getD i []).map (rows.idxOf ·) = ids := by
      rw [List.map_map]
      have : ids.map ((rows.idxOf ·) ∘ fun i => rows.getD i []) = ids.map id := by
        apply List.map_congr_left
        intro i hi
        obtain ⟨v, hv, rfl⟩ := List.mem_map.mp (hip.subset hi)
        simp only [Function.comp, id]
        rw [getD_idxOf [] (hvm v hv)]
      rw [this, List.map_id]
    rw [h3]
    exact his.imp (fun h => by simpa [natLe] using h)

theorem asIntRows_map (rows : List (List Int)) :
    asIntRows (rows.map fun r => Val.list (r.map .int)) = some rows := by
  induction rows with
  | nil => rfl
  | cons r rs ih => simp [asIntRows, asInts_map, ih]

/-- **range_rows_correct**: Range of an integer matrix with any number of rows and columns is
    the distinct rows in order of appearance (rows compared exactly) -/
theorem range_rows_correct (r : List Int) (rs : List (List Int)) (hr : r ≠ [])
    (hlen : ∀ row ∈ rs, row.length = r.length) :
    implMonad "?" (.list ((r :: rs).map fun r => Val.list (r.map .int)))
      = .ok (.list ((refRange (· == ·) (r :: rs)).map fun r => Val.list (r.map .int))) := by
  have h1 := asIntRows_map (r :: rs)
  simp only [List.map_cons] at h1
  have hpos : 0 < r.length := List.length_pos_iff.mpr hr
  have hall : (r :: rs).all (fun x => x.length == r.length) = true := by
    simp only [List.all_cons, beq_self_eq_true, Bool.true_and, List.all_eq_true, beq_iff_eq]
    exact hlen
  simp only [implMonad, List.map_cons, implRange, asInts, h1, List.headD_cons, hpos, decide_true,
    hall, Bool.and_self, if_true, implRangeRows_eq, ofInts]

example : (implRange (.list [.list [.int 3, .int 4], .list [.int 1, .int 2], .list [.int 3, .int 4]])).isOk
    (.list [.list [.int 3, .int 4], .list [.int 1, .int 2]]) = true := by decide

/-! ## Group -/

/-- positions of the value `k` in `keys`, ascending: one group of the reference -/
def positions (keys : List Int) (k : Int) : List Nat :=
  (keys.zipIdx.filter fun p => k == p.1).map (·.2)

theorem refGroup_eq (keys : List Int) :
    refGroup (· == ·) keys = (refRange (· == ·) keys).map (positions keys) := rfl

theorem intLe_total (a b : Int) : intLe a b = false → intLe b a = true := by
  simp [intLe]; omega

theorem range_map_getD (vals : List Int) :
    (List.range vals.length).map (fun i => vals.getD i 0) = vals := by
  apply List.ext_getElem
  · simp
  · intro i h1 h2
    simp at h1
    simp [List.getD_eq_getElem?_getD, List.getElem?_eq_getElem h2]

/-- `np.where(inverse == i)[0]` lists the positions of the i-th unique value -/
theorem npWhereEq_inverse (keys vals : List Int) (hnd : vals.Nodup) (hmem : ∀ k ∈ keys, k ∈ vals)
    (i : Nat) (hi : i < vals.length) :
    npWhereEq (keys.map fun x => vals.idxOf x) i = positions keys (vals.getD i 0) := by
  unfold npWhereEq positions
  rw [List.zipIdx_map, List.filter_map, List.map_map]
  have : (List.map ((fun x => x.2) ∘ Prod.map (fun x => vals.idxOf x) id)
      (List.filter ((fun p => p.1 == i) ∘ Prod.map (fun x => vals.idxOf x) id) keys.zipIdx))
      = List.map (fun x => x.2)
        (List.filter ((fun p => p.1 == i) ∘ Prod.map (fun x => vals.idxOf x) id) keys.zipIdx) :=
    List.map_congr_left (fun p _ => rfl)
  rw [this]
  congr 1
  apply List.filter_congr
  intro p hp
  have hk : p.1 ∈ keys := by
    have := List.mem_zipIdx_iff_getElem?.mp hp
    exact List.mem_of_getElem? this
  have hv := hmem _ hk
  simp only [Function.comp, Prod.map]
  have hget : vals.getD i 0 = vals[i] := by
    simp [List.getD_eq_getElem?_getD, List.getElem?_eq_getElem hi]
  rw [hget]
  by_cases he : vals[i] = p.1
  · have : vals.idxOf p.1 = i := by rw [← he]; exact List.Nodup.idxOf_getElem hnd i hi
    simp [this, he]
  · have : vals.idxOf p.1 ≠ i := by
      intro h
      apply he
      have := idxOf_getElem? hv
      rw [h, List.getElem?_eq_getElem hi] at this
      exact Option.some.inj this
    rw [beq_eq_false_iff_ne.mpr this, beq_eq_false_iff_ne.mpr he]

/-- **group_model_eq_ref**: `np.unique` + `argsort(first)` + `where(inverse == i)` is the
    reference's Group, for every vector length: one group per distinct value, in order of first
    appearance, each listing the positions of its value in ascending order -/
theorem implGroupKeys_eq (keys : List Int) : implGroupKeys keys = refGroup (· == ·) keys := by
  unfold implGroupKeys npUnique
  simp only [pyDedup_id]
  generalize hv : isort intLe (refRange (· == ·) keys) = vals
  have hvp : vals.Perm (refRange (· == ·) keys) := hv ▸ isort_perm _ _
  have hvm : ∀ v ∈ vals, v ∈ keys := fun v h => (mem_refRange keys v).mp (hvp.subset h)
  have hmem : ∀ k ∈ keys, k ∈ vals := fun k h => hvp.symm.subset ((mem_refRange keys k).mpr h)
  have hnd : vals.Nodup := hvp.nodup_iff.mpr (refRange_nodup keys)
  generalize hf : (vals.map fun v => keys.idxOf v).map (fun (i : Nat) => (i : Int)) = first
  have hflen : first.length = vals.length := by rw [← hf]; simp
  have hop := npArgsort_perm first
  rw [hflen] at hop
  have hlt : ∀ i ∈ npArgsort first, i < vals.length := fun i hi => by simpa using hop.subset hi
  rw [refGroup_eq]
  have h1 : (npArgsort first).map (npWhereEq (keys.map fun x => vals.idxOf x))
      = ((npArgsort first).map fun i => vals.getD i 0).map (positions keys) := by
    rw [List.map_map]
    apply List.map_congr_left
    intro i hi
    exact npWhereEq_inverse keys vals hnd hmem i (hlt i hi)
  rw [h1]
  congr 1
  apply eq_refRange_of_perm_sorted
  · have := hop.map (fun i => vals.getD i 0)
    rw [range_map_getD] at this
    exact this.trans hvp
  · rw [List.map_map]
    have hs := npArgsort_sorted first
    rw [List.pairwise_map] at hs ⊢
    apply hs.imp_of_mem
    intro i j hi hj h
    have hfi : ∀ i, i < vals.length → first.getD i 0 = ((keys.idxOf (vals.getD i 0) : Nat) : Int) := by
      intro i hi
      rw [← hf]
      simp [List.getD_eq_getElem?_getD, List.getElem?_eq_getElem hi]
    rw [hfi i (hlt i hi), hfi j (hlt j hj)] at h
    simp only [Function.comp]
    omega

theorem refGroup_map {α β} (f : α → β) (eq : α → α → Bool) (eq' : β → β → Bool)
    (h : ∀ a b, eq' (f a) (f b) = eq a b) (l : List α) :
    refGroup eq' (l.map f) = refGroup eq l := by
  unfold refGroup
  simp only [refRange_map f eq eq' h, List.map_map, List.zipIdx_map, List.filter_map]
  apply List.map_congr_left
  intro k _
  simp only [Function.comp]
  have : ((fun p : β × Nat => eq' (f k) p.1) ∘ Prod.map f id) = fun p : α × Nat => eq k p.1 := by
    funext p; simp [Function.comp, Prod.map, h]
  rw [this]
  apply List.map_congr_left
  intro p _
  rfl

theorem vmatch_chr_int (a b : Nat) : vmatch (.chr a) (.chr b) = (((a : Nat) : Int) == ((b : Nat) : Int)) := by
  rw [vmatch_chr]
  by_cases h : a = b
  · subst h; simp
  · have : ¬ ((a : Int) = (b : Int)) := by omega
    rw [beq_eq_false_iff_ne.mpr h, beq_eq_false_iff_ne.mpr this]

/-- **group_str_correct**: Group of a string of any length is the reference's value -/
theorem group_str_correct (cs : List Nat) :
    implMonad "=" (.str cs) = (match refMonad "=" (.str cs) with | some v => .ok v | none => .err) := by
  have href : refGroup vmatch (strChars cs) = refGroup (· == ·) (cs.map fun (c : Nat) => (c : Int)) := by
    unfold strChars
    rw [refGroup_map Val.chr (fun a b => ((a : Nat) : Int) == ((b : Nat) : Int)) vmatch
      (fun a b => vmatch_chr_int a b),
      refGroup_map (fun (c : Nat) => (c : Int)) (fun a b => ((a : Nat) : Int) == ((b : Nat) : Int))
        (· == ·) (fun _ _ => rfl)]
  cases cs with
  | nil => simp [implMonad, implGroup, refMonad, refGroup, refRange, strChars]
  | cons c cs =>
    simp only [implMonad, implGroup, refMonad, href, implGroupKeys_eq, groupsVal, ofNats]

/-- **group_ints_correct**: Group of an integer vector of any length is the reference's value -/
theorem group_ints_correct (ns : List Int) :
    refMonad "=" (.list (ns.map .int)) = some (groupsVal (refGroup (· == ·) ns)) ∧
    implMonad "=" (.list (ns.map .int)) = .ok (groupsVal (refGroup (· == ·) ns)) := by
  constructor
  · simp only [refMonad, refGroup_map Val.int (· == ·) vmatch vmatch_int, groupsVal, ofNats]
    rw [any_ints _ (fun _ => rfl)]
    simp
  cases ns with
  | nil => simp [implMonad, implGroup, refGroup, refRange, groupsVal]
  | cons n ns =>
    have h := asInts_map (n :: ns)
    simp only [List.map_cons] at h
    simp only [implMonad, List.map_cons, implGroup, h, implGroupKeys_eq]

/-! ### what the groups are (the reference's Group, spelled out) -/

theorem mem_positions (keys : List Int) (k : Int) (i : Nat) :
    i ∈ positions keys k ↔ keys[i]? = some k := by
  unfold positions
  simp only [List.mem_map, List.mem_filter, List.mem_zipIdx_iff_getElem?]
  constructor
  · rintro ⟨p, ⟨hp, hk⟩, rfl⟩
    rw [hp]
    simp at hk
    rw [hk]
  · intro h
    exact ⟨(k, i), ⟨h, by simp⟩, rfl⟩

theorem positions_sorted (keys : List Int) (k : Int) : (positions keys k).Pairwise (· < ·) := by
  unfold positions
  have h : (keys.zipIdx.map (·.2)).Pairwise (· < ·) := by
    rw [List.zipIdx_map_snd 0 keys, ← List.range_eq_range']
    exact List.pairwise_lt_range
  exact List.Pairwise.sublist (List.Sublist.map _ List.filter_sublist) h

/-- **group_spec**: the modelled Group, for a vector of any length: (1) the groups partition
    the positions 0..n-1; (2) every group lists, in ascending order, exactly the positions of
    one value; (3) the groups are ordered by the first appearance of their value -/
theorem group_spec (keys : List Int) :
    (implGroupKeys keys).flatten.Perm (List.range keys.length) ∧
    (∀ g ∈ implGroupKeys keys, g.Pairwise (· < ·) ∧ ∃ k ∈ keys, ∀ i, i ∈ g ↔ keys[i]? = some k) ∧
    (implGroupKeys keys).length = (refRange (· == ·) keys).length ∧
    ((refRange (· == ·) keys).map (keys.idxOf ·)).Pairwise (· < ·) ∧
    (∀ j (h : j < (refRange (· == ·) keys).length),
      (implGroupKeys keys)[j]? = some (positions keys (refRange (· == ·) keys)[j])) := by
  rw [implGroupKeys_eq, refGroup_eq]
  refine ⟨?_, ?_, by simp, refRange_idxOf_lt keys, ?_⟩
  · rw [List.perm_ext_iff_of_nodup]
    · intro i
      simp only [List.mem_flatten, List.mem_map, List.mem_range]
      constructor
      · rintro ⟨g, ⟨k, _, rfl⟩, hi⟩
        have := (mem_positions keys k i).mp hi
        rcases Nat.lt_or_ge i keys.length with h | h
        · exact h
        · rw [List.getElem?_eq_none h] at this; cases this
      · intro hi
        refine ⟨positions keys keys[i], ⟨keys[i], ?_, rfl⟩, ?_⟩
        · exact (mem_refRange keys _).mpr (List.getElem_mem hi)
        · exact (mem_positions keys _ i).mpr (List.getElem?_eq_getElem hi)
    · show List.Pairwise (· ≠ ·) _
      rw [List.pairwise_flatten]
      constructor
      · intro g hg
        obtain ⟨k, _, rfl⟩ := List.mem_map.mp hg
        exact (positions_sorted keys k).imp (fun h => Nat.ne_of_lt h)
      · rw [List.pairwise_map]
        apply (refRange_nodup keys).imp
        intro a b hab i hia j hjb hij
        subst hij
        have h1 := (mem_positions keys a i).mp hia
        have h2 := (mem_positions keys b i).mp hjb
        rw [h1] at h2
        exact hab (Option.some.inj h2)
    · exact List.nodup_range
  · intro g hg
    obtain ⟨k, hk, rfl⟩ := List.mem_map.mp hg
    exact ⟨positions_sorted keys k, k, (mem_refRange keys k).mp hk, mem_positions keys k⟩
  · intro j h
    simp [List.getElem?_map, List.getElem?_eq_getElem h]

/-- "hello foo": the manual's example -/
example : (implGroup (.str [104, 101, 108, 108, 111, 32, 102, 111, 111])).isOk
    (groupsVal [[0], [1], [2, 3], [4, 7, 8], [5], [6]]) = true := by decide

/-! ## Shape -/

/-- no empty list / empty string anywhere in the operand (the manual calls them atoms; numpy
    gives them a dimension of length 0) -/
def noEmpty : Val → Bool
  | .list [] => false
  | .list (x :: xs) => noEmpty x && go xs
  | .str [] => false
  | _ => true
where
  go : List Val → Bool
    | [] => true
    | y :: ys => noEmpty y && go ys

/-- the reference's "is a sub-array" test on the first member -/
def innerB : Val → Bool
  | .list _ => true
  | .str (_ :: _) => true
  | _ => false

/-- the reference itself calls the list a vector: the members do not all have the shape of an
    array first member -/
def topRagged : Val → Bool
  | .list (x :: xs) => !(innerB x && (refShape.refShapes xs).all (fun t => t == refShape x))
  | _ => false

/-- operands on which `np.asarray(...).shape` / ValueError and the reference agree: no empty
    members, and either every level is regular or the top level already is a vector -/
def shapeClass (a : Val) : Bool := noEmpty a && ((npShapeA a).isSome || topRagged a)

theorem refShapes_length (xs : List Val) : (refShape.refShapes xs).length = xs.length := by
  induction xs with
  | nil => rfl
  | cons x xs ih => simp [refShape.refShapes, ih]

mutual
/-- a nest that numpy accepts as a regular array has exactly the reference's shape, at every rank -/
theorem shapeA_ref : (v : Val) → (s : List Nat) → noEmpty v = true → npShapeA v = some s →
    refShape v = s
  | .list [], s, hn, _ => by simp [noEmpty] at hn
  | .list (x :: xs), s, hn, h => by
    simp only [noEmpty, Bool.and_eq_true] at hn
    simp only [npShapeA, npShapeA.shapes] at h
    cases hx : npShapeA x with
    | none => simp [hx] at h
    | some sx =>
      cases hxs : npShapeA.shapes xs with
      | none => simp [hx, hxs] at h
      | some ss =>
        simp only [hx, hxs] at h
        have e1 := shapeA_ref x sx hn.1 hx
        have e2 := shapesA_ref xs ss hn.2 hxs
        have hl : ss.length = xs.length := by rw [← e2, refShapes_length]
        split at h
        · rename_i hall
          simp only [Option.some.injEq] at h
          subst h
          simp only [refShape, e1, e2, hall, Bool.and_true, hl]
          cases x with
          | int _ | real _ | chr _ | sym _ =>
            simp only [npShapeA, Option.some.injEq] at hx; subst hx; rfl
          | list _ => rfl
          | str cs =>
            cases cs with
            | nil => simp [noEmpty] at hn
            | cons _ _ => rfl
          | dict _ | undef => simp [npShapeA] at hx
        · simp at h
  | .str [], s, hn, _ => by simp [noEmpty] at hn
  | .str (c :: cs), s, _, h => by
    simp only [npShapeA, Option.some.injEq] at h
    subst h
    simp [refShape]
  | .int _, s, _, h => by simp only [npShapeA, Option.some.injEq] at h; subst h; rfl
  | .real _, s, _, h => by simp only [npShapeA, Option.some.injEq] at h; subst h; rfl
  | .chr _, s, _, h => by simp only [npShapeA, Option.some.injEq] at h; subst h; rfl
  | .sym _, s, _, h => by simp only [npShapeA, Option.some.injEq] at h; subst h; rfl
  | .dict _, s, _, h => by simp [npShapeA] at h
  | .undef, s, _, h => by simp [npShapeA] at h
theorem shapesA_ref : (xs : List Val) → (ss : List (List Nat)) → noEmpty.go xs = true →
    npShapeA.shapes xs = some ss → refShape.refShapes xs = ss
  | [], ss, _, h => by
    simp only [npShapeA.shapes, Option.some.injEq] at h
    subst h
    rfl
  | x :: xs, ss, hn, h => by
    simp only [noEmpty.go, Bool.and_eq_true] at hn
    simp only [npShapeA.shapes] at h
    cases hx : npShapeA x with
    | none => simp [hx] at h
    | some sx =>
      cases hxs : npShapeA.shapes xs with
      | none => simp [hx, hxs] at h
      | some ss' =>
        simp only [hx, hxs, Option.some.injEq] at h
        subst h
        simp only [refShape.refShapes, shapeA_ref x sx hn.1 hx, shapesA_ref xs ss' hn.2 hxs]
end

theorem refShape_topRagged (x : Val) (xs : List Val) (h : topRagged (.list (x :: xs)) = true) :
    refShape (.list (x :: xs)) = [xs.length + 1] := by
  simp only [topRagged, Bool.not_eq_true', Bool.and_eq_false_iff] at h
  simp only [refShape]
  rcases h with h | h
  · cases x with
    | list _ => simp [innerB] at h
    | str cs =>
      cases cs with
      | nil => rfl
      | cons _ _ => simp [innerB] at h
    | _ => rfl
  · simp [h]

/-- the value `^a` has on the operands of `shapeClass`: the reference's shape -/
theorem implShape_list (x : Val) (xs : List Val) (hc : shapeClass (.list (x :: xs)) = true) :
    implShape (.list (x :: xs)) = .unmodelled ∨
    implShape (.list (x :: xs)) = .ok (.list (ofNats (refShape (.list (x :: xs))))) := by
  simp only [shapeClass, Bool.and_eq_true, Bool.or_eq_true] at hc
  obtain ⟨hn, hc⟩ := hc
  unfold implShape
  split
  · left; rfl
  · right
    cases hs : npShapeA (.list (x :: xs)) with
    | some s =>
      simp only [hs]
      rw [shapeA_ref _ s hn hs]
    | none =>
      simp only [hs]
      rcases hc with hc | hc
      · simp [hs] at hc
      · rw [refShape_topRagged x xs hc]
        simp [ofNats]

/-- **shape_correct**: wherever the reference defines Shape and the operand is in `shapeClass`
    (regular nests of ANY rank over numbers / characters / symbols / equal-length strings, and
    lists whose members differ in shape — vectors), `np.asarray(...).shape` with its ValueError
    fallback is the reference's shape; atoms give 0 and strings their length -/
theorem shape_correct (a v : Val) (href : refMonad "^" a = some v) (hc : shapeClass a = true) :
    implMonad "^" a = .unmodelled ∨ implMonad "^" a = .ok v := by
  cases a with
  | list xs =>
    cases xs with
    | nil => simp [shapeClass, noEmpty] at hc
    | cons x xs =>
      simp only [refMonad] at href
      split at href
      · simp at href
      · simp only [Option.some.injEq] at href
        subst href
        simpa only [implMonad, ofNats] using implShape_list x xs hc
  | str cs =>
    cases cs with
    | nil => simp [refMonad] at href
    | cons c cs =>
      simp only [refMonad, Option.some.injEq] at href
      subst href
      right
      simp [implMonad, implShape, hasOpaque]
  | int n => simp only [refMonad, Option.some.injEq] at href; subst href; right; rfl
  | real n => simp only [refMonad, Option.some.injEq] at href; subst href; right; rfl
  | chr n => simp only [refMonad, Option.some.injEq] at href; subst href; right; rfl
  | sym n => simp only [refMonad, Option.some.injEq] at href; subst href; right; rfl
  | dict n => left; rfl
  | undef => left; rfl

/-- atoms and the two empty sequences: Shape is 0 -/
theorem shape_atom_correct :
    implShape (.list []) = .ok (.int 0) ∧ implShape (.str []) = .ok (.int 0) ∧
    refMonad "^" (.list []) = some (.int 0) := ⟨rfl, rfl, rfl⟩

/-- the excluded class is real.  (1) members of one common `refShape`, one of them ragged
    inside: `^[[[1 2] [[1] [2 3]]] [[1 2] [[1] [2 3]]]]` is [2] in the code, `refShape` says
    [2 2 2].  (2) empty members: `^[["" ""] ["" ""]]` is [2 2 0] in the code, `refShape` says
    [2 2] ("" is an atom).  Both are ambiguous in the manual: `refMonad "^"` leaves them
    undefined (`shapeAmb`, applied at every depth). -/
theorem shape_deviation :
    let r := Val.list [.list [.int 1, .int 2], .list [.list [.int 1], .list [.int 2, .int 3]]]
    let w := Val.list [r, r]
    shapeClass w = false ∧ (implShape w).isOk (.list (ofNats [2])) = true ∧
      refShape w = [2, 2, 2] ∧ shapeAmb w = true ∧
    (let e := Val.list [.list [.str [], .str []], .list [.str [], .str []]]
     shapeClass e = false ∧ (implShape e).isOk (.list (ofNats [2, 2, 0])) = true ∧
       refShape e = [2, 2] ∧ shapeAmb e = true) := by decide

example : shapeClass (.list [.list [.list [.int 1, .int 2], .list [.int 3, .int 4]],
    .list [.list [.int 5, .int 6], .list [.int 7, .int 8]]]) = true := by decide
example : shapeClass (.list [.list [.int 1], .list [.int 2, .int 3]]) = true := by decide
example : shapeClass (.list [.str [97, 98], .str [99, 100]]) = true := by decide
example : (implShape (.list [.str [97, 98], .str [99, 100]])).isOk (.list (ofNats [2, 2])) = true := by
  decide

/-! ## Reshape -/

theorem foldl_mul (ds : List Nat) (k : Nat) : ds.foldl (· * ·) k = k * ds.foldl (· * ·) 1 := by
  induction ds generalizing k with
  | nil => simp
  | cons d ds ih =>
    simp only [List.foldl_cons]
    rw [ih (k * d), ih (1 * d)]
    simp [Nat.mul_assoc]

theorem cyc_val (xs : List Val) (i : Nat) : cyc xs i = xs.getD (i % xs.length) .undef := rfl

/-- `reshape` (row-major chunking) of a window of the endless repetition of `xs` is the
    reference's cyclic fill, for shapes of any rank -/
theorem npReshape_window (xs : List Val) : ∀ (dims : List Nat) (fuel off : Nat), dims.length ≤ fuel →
    npReshape dims (window xs off (dims.foldl (· * ·) 1)) = reshapeFill fuel dims xs off
  | [], fuel, off, _ => by
    have : window xs off 1 = [cyc xs off] := by simp [window]
    simp only [List.foldl_nil, this, npReshape, List.headD_cons, cyc_val]
    cases fuel <;> simp [reshapeFill]
  | d :: ds, 0, off, h => by simp at h
  | d :: ds, fuel + 1, off, h => by
    simp only [npReshape, reshapeFill]
    congr 1
    apply List.map_congr_left
    intro i hi
    have hi' : i < d := by simpa using hi
    rw [List.foldl_cons, foldl_mul ds (1 * d), Nat.one_mul]
    generalize hst : ds.foldl (· * ·) 1 = stride
    rw [window_drop, window_take]
    have hle : stride ≤ d * stride - i * stride := by
      rw [← Nat.sub_mul]
      exact Nat.le_mul_of_pos_left _ (by omega)
    rw [Nat.min_eq_left hle]
    have key := npReshape_window xs ds fuel (off + i * stride) (by simpa using h)
    rw [hst] at key
    exact key

theorem flat_gt (xs : List Val) (a_s : Nat) (hb : 0 < xs.length) (hgt : a_s > xs.length) :
    tile xs (a_s / xs.length) ++ slice (tile xs (a_s / xs.length)) none
      (some ((a_s : Int) - ((tile xs (a_s / xs.length)).length : Int))) = window xs 0 a_s := by
  have hq : 0 < a_s / xs.length := Nat.div_pos (by omega) hb
  have hdm := Nat.div_add_mod a_s xs.length
  have hr := Nat.mod_lt a_s hb
  generalize a_s / xs.length = q at *
  generalize a_s % xs.length = r at *
  rw [tile_eq_window, window_length]
  rw [Nat.mul_comm] at hdm
  have hKn : xs.length ≤ q * xs.length := Nat.le_mul_of_pos_left _ hq
  have h4 := window_add_mul xs 0 q r
  generalize q * xs.length = K at *
  have e : (a_s : Int) - (K : Int) = (r : Int) := by omega
  rw [e, slice_none_some _ _ (by omega), window_take]
  have h3 : min (r : Int).toNat K = r := by omega
  rw [h3, ← h4, window_append]
  congr 1

theorem resize_eq (xs : List Val) (k : Nat) (hb : 0 < xs.length) :
    npResizeFlat xs k = window xs 0 k := by
  unfold npResizeFlat
  have hdm := Nat.div_add_mod (k + xs.length - 1) xs.length
  have hr := Nat.mod_lt (k + xs.length - 1) hb
  generalize (k + xs.length - 1) / xs.length = c at *
  generalize (k + xs.length - 1) % xs.length = m at *
  rw [tile_eq_window, slice_none_some _ _ (by omega), window_take]
  rw [Nat.mul_comm] at hdm
  generalize c * xs.length = K at *
  congr 1
  omega

theorem flat_atom_dims (xs : List Val) (n : Nat) (hb : 0 < xs.length) (_hge : ¬ n < xs.length) :
    tile xs (n / xs.length) ++ slice xs none (some ((n : Int) - ((xs.length * (n / xs.length) : Nat) : Int)))
      = window xs 0 n := by
  have hdm := Nat.div_add_mod n xs.length
  have hr := Nat.mod_lt n hb
  generalize n / xs.length = q at *
  generalize n % xs.length = r at *
  rw [tile_eq_window]
  have h4 := window_add_mul xs 0 q r
  rw [Nat.mul_comm] at hdm
  rw [Nat.mul_comm xs.length q]
  generalize q * xs.length = K at *
  have e : (n : Int) - (K : Int) = (r : Int) := by omega
  rw [e, slice_none_some _ _ (by omega), take_self]
  have h3 : min (r : Int).toNat xs.length = r := by omega
  rw [h3, ← h4, window_append]
  congr 1

theorem replicate_eq_window (b : Val) (k : Nat) : List.replicate k b = window [b] 0 k := by
  apply List.ext_getElem
  · simp
  · intro i h1 h2
    simp [window, cyc, Nat.mod_one]

theorem flattenList_flat (xs : List Val) (h : ∀ x ∈ xs, ∀ ys, x ≠ .list ys) :
    flattenAll.flattenList xs = xs := by
  induction xs with
  | nil => rfl
  | cons x xs ih =>
    have hx : flattenAll x = [x] := by
      cases x <;> first | rfl | exact absurd rfl (h _ List.mem_cons_self _)
    simp [flattenAll.flattenList, hx, ih (fun y hy => h y (List.mem_cons_of_mem _ hy))]

theorem reshapeFill_vec (flat : List Val) (m : Nat) :
    reshapeFill 2 [m] flat 0 = .list (window flat 0 m) := by
  simp [reshapeFill, window, cyc_val]

theorem implReshape_list_src (ds : List Nat) (xs : List Val) (hx : xs ≠ []) (_hv : isVecSrc xs = true) :
    (let a_s := ds.foldl (· * ·) 1
     let b_s := xs.length
     if a_s > b_s then
       if b_s = 0 then Res.err
       else
         let t := tile xs (a_s / b_s)
         let t := t ++ slice t none (some ((a_s : Int) - (t.length : Int)))
         Res.ok (npReshape ds t)
     else if a_s = b_s then Res.ok (npReshape ds xs)
     else Res.ok (npReshape ds (npResizeFlat xs a_s)))
    = .ok (reshapeFill (ds.length + 1) ds xs 0) := by
  have hb : 0 < xs.length := List.length_pos_iff.mpr hx
  have key := npReshape_window xs ds (ds.length + 1) 0 (by omega)
  dsimp only
  split
  · rename_i hgt
    have : ¬ xs.length = 0 := by omega
    simp only [this, if_false]
    rw [flat_gt xs _ hb hgt, key]
  · split
    · rename_i heq
      rw [← key, heq, ← self_eq_window]
    · rw [resize_eq xs _ hb, key]

/-- **reshape_correct**: wherever the reference defines Reshape (a vector or atom source, a
    positive integer or a list of positive dimensions of ANY rank) and the operand is in a
    modelled class, the tile / concatenate / resize / reshape branches of `eval_dyad_reshape`
    produce the reference's cyclic fill -/
theorem reshape_correct (a b v : Val) (h : refDyad ":^" a b = some v) :
    implDyad ":^" a b = .unmodelled ∨ implDyad ":^" a b = .ok v := by
  cases a with
  | list dimsV =>
    simp [refDyad, aopOf] at h
    cases hnl : natList dimsV with
    | none => simp [hnl] at h
    | some ds =>
      simp only [hnl] at h
      obtain ⟨dims, hdims⟩ := natList_asInts hnl
      have h2 := natList_of_asInts hdims
      rw [hnl] at h2
      simp only [implDyad, implReshape, hdims]
      split
      · left; rfl
      · split at h2
        · cases h2
        · simp only [Option.some.injEq] at h2
          rw [← h2]
          cases b with
          | list xs =>
            simp at h
            obtain ⟨⟨⟨_, hne⟩, hflat⟩, rfl⟩ := h
            have hfl : flattenAll (.list xs) = xs := by
              simp only [flattenAll]
              apply flattenList_flat
              intro x hx ys hxy
              subst hxy
              have := hflat _ hx
              simp at this
            rw [hfl] at hne ⊢
            by_cases hv : isVecSrc xs = true
            · right
              simp only [hv, Bool.not_true, Bool.false_eq_true, if_false]
              exact implReshape_list_src ds xs hne hv
            · left
              simp [hv]
          | int k =>
            simp [flattenAll] at h
            obtain ⟨_, rfl⟩ := h
            right
            simp only
            rw [replicate_eq_window, npReshape_window [Val.int k] ds (ds.length + 1) 0 (by omega)]
          | real k =>
            simp [flattenAll] at h
            obtain ⟨_, rfl⟩ := h
            right
            simp only
            rw [replicate_eq_window, npReshape_window [Val.real k] ds (ds.length + 1) 0 (by omega)]
          | _ => left; rfl
  | int n =>
    simp [refDyad, aopOf] at h
    simp only [implDyad, implReshape]
    cases b with
    | list xs =>
      simp at h
      obtain ⟨⟨⟨hpos, hne⟩, hflat⟩, rfl⟩ := h
      have hfl : flattenAll (.list xs) = xs := by
        simp only [flattenAll]
        apply flattenList_flat
        intro x hx ys hxy
        subst hxy
        have := hflat _ hx
        simp at this
      rw [hfl] at hne ⊢
      obtain ⟨m, rfl⟩ : ∃ m : Nat, n = (m : Int) := ⟨n.toNat, by omega⟩
      have h1 : ¬ ((m : Int) < 0) := by omega
      have h2 : ¬ ((m : Int) = 0) := by omega
      have hb : 0 < xs.length := List.length_pos_iff.mpr hne
      simp only [h1, h2, if_false, Int.toNat_natCast, reshapeFill_vec]
      by_cases hv : isVecSrc xs = true
      · right
        simp only [hv, Bool.not_true, Bool.false_eq_true, if_false]
        split
        · rw [resize_eq xs m hb]
        · rename_i hge
          have : ¬ xs.length = 0 := by omega
          simp only [this, if_false]
          rw [flat_atom_dims xs m hb hge]
      · left
        simp [hv]
    | int k =>
      simp [flattenAll] at h
      obtain ⟨hpos, rfl⟩ := h
      have h1 : ¬ (n < 0) := by omega
      have h2 : ¬ (n = 0) := by omega
      right
      simp only [h1, h2, if_false, reshapeFill_vec, replicate_eq_window]
    | real k =>
      simp [flattenAll] at h
      obtain ⟨hpos, rfl⟩ := h
      have h1 : ¬ (n < 0) := by omega
      have h2 : ¬ (n = 0) := by omega
      right
      simp only [h1, h2, if_false, reshapeFill_vec, replicate_eq_window]
    | str cs => simp at h
    | _ =>
      left
      first
        | (simp [flattenAll] at h; done)
        | (simp [flattenAll] at h
           have h1 : ¬ (n < 0) := by omega
           have h2 : ¬ (n = 0) := by omega
           simp only [h1, h2, if_false])
  | _ => simp [refDyad, aopOf] at h


example : (implReshape (.list [.int 2, .int 2, .int 2]) (.list [.int 1, .int 2, .int 3])).isOk
    (.list [.list [.list [.int 1, .int 2], .list [.int 3, .int 1]],
            .list [.list [.int 2, .int 3], .list [.int 1, .int 2]]]) = true := by decide
example : (implReshape (.int 5) (.list [.int 1, .int 2])).isOk
    (.list [.int 1, .int 2, .int 1, .int 2, .int 1]) = true := by decide
example : (implReshape (.list [.int 2, .int 2]) (.list [.int 1, .int 2, .int 3, .int 4, .int 5])).isOk
    (.list [.list [.int 1, .int 2], .list [.int 3, .int 4]]) = true := by decide
example : (refDyad ":^" (.list [.int 2, .int 2]) (.list [.int 1, .int 2, .int 3])).isSome = true := by
  decide

end Klong.C01.Ext2
