/-
  C19 — property theorems for the buffered table machine of Klong/Model/C19.lean.
  Helper lemmas first, property theorems below the line "Property theorems (C19)".
-/
import Klong.Model.C19
namespace Klong.C19

/-! ## the order on keys is a linear order -/

section Lex
variable {α : Type} [DecidableEq α] (le : α → α → Bool)

theorem lexLe_nil_left (b : List α) : lexLe le [] b = true := by
  cases b <;> rfl

theorem lexLe_total (ht : ∀ a b, le a b = true ∨ le b a = true) :
    ∀ a b : List α, lexLe le a b = true ∨ lexLe le b a = true
  | [], b => Or.inl (lexLe_nil_left le b)
  | _ :: _, [] => Or.inr rfl
  | a :: as, b :: bs => by
    simp only [lexLe]
    by_cases h : a = b
    · subst h; simpa using lexLe_total ht as bs
    · have h' : ¬ b = a := fun e => h e.symm
      simpa [h, h'] using ht a b

theorem lexLe_antisymm (ha : ∀ a b, le a b = true → le b a = true → a = b) :
    ∀ a b : List α, lexLe le a b = true → lexLe le b a = true → a = b
  | [], [] => fun _ _ => rfl
  | [], _ :: _ => fun _ h => by simp [lexLe] at h
  | _ :: _, [] => fun h _ => by simp [lexLe] at h
  | a :: as, b :: bs => by
    simp only [lexLe]
    by_cases h : a = b
    · subst h
      simp only [if_true]
      intro h1 h2
      rw [lexLe_antisymm ha as bs h1 h2]
    · have h' : ¬ b = a := fun e => h e.symm
      simp only [h, h', if_false]
      intro h1 h2
      exact absurd (ha a b h1 h2) h

theorem lexLe_trans (ha : ∀ a b, le a b = true → le b a = true → a = b)
    (htr : ∀ a b c, le a b = true → le b c = true → le a c = true) :
    ∀ a b c : List α, lexLe le a b = true → lexLe le b c = true → lexLe le a c = true
  | [], _, c => fun _ _ => lexLe_nil_left le c
  | _ :: _, [], _ => fun h _ => by simp [lexLe] at h
  | _ :: _, _ :: _, [] => fun _ h => by simp [lexLe] at h
  | x :: xs, y :: ys, z :: zs => by
    simp only [lexLe]
    by_cases hxy : x = y
    · subst hxy
      by_cases hxz : x = z
      · subst hxz
        simp only [if_true]
        exact lexLe_trans ha htr xs ys zs
      · simp only [hxz, if_true, if_false]
        intro _ h; exact h
    · by_cases hyz : y = z
      · subst hyz
        simp only [hxy, if_true, if_false]
        intro h _; exact h
      · simp only [hxy, hyz, if_false]
        intro h1 h2
        by_cases hxz : x = z
        · subst hxz
          exact absurd (ha x y h1 h2) hxy
        · simp only [hxz, if_false]
          exact htr x y z h1 h2

end Lex

theorem natLe_total (a b : Nat) : natLe a b = true ∨ natLe b a = true := by
  simp [natLe]; omega
theorem natLe_antisymm (a b : Nat) : natLe a b = true → natLe b a = true → a = b := by
  simp [natLe]; omega
theorem natLe_trans (a b c : Nat) : natLe a b = true → natLe b c = true → natLe a c = true := by
  simp [natLe]; omega

theorem Cell.le_total (a b : Cell) : Cell.le a b = true ∨ Cell.le b a = true := by
  cases a <;> cases b <;> simp [Cell.le]
  · omega
  · exact lexLe_total natLe natLe_total _ _

theorem Cell.le_antisymm (a b : Cell) : Cell.le a b = true → Cell.le b a = true → a = b := by
  cases a <;> cases b <;> simp [Cell.le]
  · omega
  · exact lexLe_antisymm natLe natLe_antisymm _ _

theorem Cell.le_trans (a b c : Cell) : Cell.le a b = true → Cell.le b c = true → Cell.le a c = true := by
  cases a <;> cases b <;> cases c <;> simp [Cell.le]
  · omega
  · exact lexLe_trans natLe natLe_antisymm natLe_trans _ _ _

theorem Key.le_total (a b : Key) : Key.le a b = true ∨ Key.le b a = true :=
  lexLe_total Cell.le Cell.le_total a b
theorem Key.le_antisymm (a b : Key) : Key.le a b = true → Key.le b a = true → a = b :=
  lexLe_antisymm Cell.le Cell.le_antisymm a b
theorem Key.le_trans (a b c : Key) : Key.le a b = true → Key.le b c = true → Key.le a c = true :=
  lexLe_trans Cell.le Cell.le_antisymm Cell.le_trans a b c
theorem Key.le_refl (a : Key) : Key.le a a = true := by
  rcases Key.le_total a a with h | h <;> exact h
theorem Key.le_of_not_le {a b : Key} (h : ¬ Key.le a b = true) : Key.le b a = true := by
  rcases Key.le_total a b with h' | h'
  · exact absurd h' h
  · exact h'

/-- strictly smaller key -/
def klt (a b : Key) : Prop := Key.le a b = true ∧ a ≠ b

theorem klt_trans {a b c : Key} (h1 : klt a b) (h2 : klt b c) : klt a c := by
  refine ⟨Key.le_trans a b c h1.1 h2.1, ?_⟩
  intro hac; subst hac
  exact h1.2 (Key.le_antisymm a b h1.1 h2.1)

theorem klt_asymm {a b : Key} (h1 : klt a b) (h2 : klt b a) : False :=
  h1.2 (Key.le_antisymm a b h1.1 h2.1)

/-- rows sorted by key (weakly) -/
def Sorted (kf : Row → Key) (l : List Row) : Prop := l.Pairwise (fun a b => Key.le (kf a) (kf b) = true)

/-- rows strictly sorted by key: sorted, one row per key -/
def SSorted (kf : Row → Key) (l : List Row) : Prop := l.Pairwise (fun a b => klt (kf a) (kf b))

theorem SSorted.nodup {kf : Row → Key} {l : List Row} (h : SSorted kf l) : (l.map kf).Nodup := by
  rw [List.Nodup, List.pairwise_map]
  exact List.Pairwise.imp (fun hab => hab.2) h

theorem ssorted_of_sorted_nodup {kf : Row → Key} {l : List Row} (h1 : Sorted kf l)
    (h2 : (l.map kf).Nodup) : SSorted kf l := by
  rw [List.Nodup, List.pairwise_map] at h2
  exact List.Pairwise.and h1 h2

/-! ## findKey / findLast -/

section Keyed
variable (kf : Row → Key)

@[simp] theorem findKey_nil (k : Key) : findKey kf k [] = none := rfl

theorem findKey_cons (k : Key) (r : Row) (l : List Row) :
    findKey kf k (r :: l) = if kf r = k then some r else findKey kf k l := by
  by_cases h : kf r = k <;> simp [findKey, h]

theorem findKey_append (k : Key) (a b : List Row) :
    findKey kf k (a ++ b) = (findKey kf k a).or (findKey kf k b) := by
  simp [findKey, List.find?_append]

theorem findKey_some {k : Key} {l : List Row} {r : Row} (h : findKey kf k l = some r) :
    r ∈ l ∧ kf r = k := by
  refine ⟨List.mem_of_find?_eq_some h, ?_⟩
  have := List.find?_some h
  simpa using this

theorem findKey_eq_none {k : Key} {l : List Row} :
    findKey kf k l = none ↔ ∀ r ∈ l, kf r ≠ k := by
  simp [findKey]

theorem findKey_map (f : Row → Row) (hf : ∀ r, kf (f r) = kf r) (k : Key) (l : List Row) :
    findKey kf k (l.map f) = (findKey kf k l).map f := by
  induction l with
  | nil => rfl
  | cons r l ih =>
    simp only [List.map_cons, findKey_cons, hf]
    by_cases h : kf r = k <;> simp [h, ih]

theorem findKey_filter (p : Key → Bool) (k : Key) (l : List Row) :
    findKey kf k (l.filter (fun r => p (kf r))) = if p k = true then findKey kf k l else none := by
  induction l with
  | nil => simp
  | cons r l ih =>
    by_cases hp : p (kf r) = true
    · simp only [List.filter_cons, hp, if_true, findKey_cons, ih]
      by_cases h : kf r = k
      · subst h; simp [hp]
      · simp [h]
    · have hf : List.filter (fun r => p (kf r)) (r :: l) = List.filter (fun r => p (kf r)) l := by
        simp [hp]
      rw [hf, ih, findKey_cons]
      by_cases h : kf r = k
      · subst h; simp [hp]
      · simp [h]

theorem findLast_nil (k : Key) : findLast kf k [] = none := rfl

theorem findLast_append (k : Key) (a b : List Row) :
    findLast kf k (a ++ b) = (findLast kf k b).or (findLast kf k a) := by
  simp [findLast, List.reverse_append, findKey_append]

theorem findLast_single (k : Key) (r : Row) :
    findLast kf k [r] = if kf r = k then some r else none := by
  simp [findLast, findKey_cons]

theorem findLast_cons (k : Key) (r : Row) (l : List Row) :
    findLast kf k (r :: l) = (findLast kf k l).or (if kf r = k then some r else none) := by
  have := findLast_append kf k [r] l
  simpa [findLast_single] using this

theorem findLast_eq_none {k : Key} {l : List Row} :
    findLast kf k l = none ↔ ∀ r ∈ l, kf r ≠ k := by
  simp [findLast, findKey_eq_none]

theorem findLast_some {k : Key} {l : List Row} {r : Row} (h : findLast kf k l = some r) :
    r ∈ l ∧ kf r = k := by
  have := findKey_some kf h
  simpa using this

/-! ## sorting -/

theorem insertRow_perm (r : Row) (l : List Row) : (insertRow kf r l).Perm (r :: l) := by
  induction l with
  | nil => exact List.Perm.refl _
  | cons q qs ih =>
    simp only [insertRow]
    split
    · exact List.Perm.refl _
    · exact (List.Perm.cons q ih).trans (List.Perm.swap r q qs)

theorem sortRows_perm (l : List Row) : (sortRows kf l).Perm l := by
  induction l with
  | nil => exact List.Perm.refl _
  | cons r rs ih => exact (insertRow_perm kf r _).trans (List.Perm.cons r ih)

theorem insertRow_sorted (r : Row) (l : List Row) (h : Sorted kf l) : Sorted kf (insertRow kf r l) := by
  induction l with
  | nil => simp [insertRow, Sorted]
  | cons q qs ih =>
    have hq := List.pairwise_cons.mp h
    simp only [insertRow]
    split
    · rename_i hle
      refine List.pairwise_cons.mpr ⟨?_, h⟩
      intro a ha
      rcases List.mem_cons.mp ha with rfl | ha
      · exact hle
      · exact Key.le_trans _ _ _ hle (hq.1 a ha)
    · rename_i hle
      refine List.pairwise_cons.mpr ⟨?_, ih hq.2⟩
      intro a ha
      rcases List.mem_cons.mp ((insertRow_perm kf r qs).mem_iff.mp ha) with rfl | ha
      · exact Key.le_of_not_le hle
      · exact hq.1 a ha

theorem sortRows_sorted (l : List Row) : Sorted kf (sortRows kf l) := by
  induction l with
  | nil => simp [sortRows, Sorted]
  | cons r rs ih => exact insertRow_sorted kf r _ ih

theorem findKey_insertRow (k : Key) (r : Row) (l : List Row) :
    findKey kf k (insertRow kf r l) = if kf r = k then some r else findKey kf k l := by
  induction l with
  | nil => simp [insertRow, findKey_cons]
  | cons q qs ih =>
    simp only [insertRow]
    split
    · simp [findKey_cons]
    · rename_i hle
      simp only [findKey_cons, ih]
      by_cases hq : kf q = k
      · by_cases hr : kf r = k
        · exfalso; apply hle; rw [hr, ← hq]; exact Key.le_refl _
        · simp [hq, hr]
      · simp [hq]

/-- the sort is stable: the first row of a key stays the first -/
theorem findKey_sortRows (k : Key) (l : List Row) : findKey kf k (sortRows kf l) = findKey kf k l := by
  induction l with
  | nil => rfl
  | cons r rs ih => simp only [sortRows, findKey_insertRow, ih, findKey_cons]

theorem keys_sortRows_perm (l : List Row) : ((sortRows kf l).map kf).Perm (l.map kf) :=
  (sortRows_perm kf l).map kf

theorem ssorted_sortRows (l : List Row) (h : (l.map kf).Nodup) : SSorted kf (sortRows kf l) :=
  ssorted_of_sorted_nodup (sortRows_sorted kf l) ((keys_sortRows_perm kf l).nodup_iff.mpr h)

/-! ## drop_duplicates -/

theorem dropDupRows_sublist (l : List Row) : (dropDupRows l).Sublist l := by
  induction l with
  | nil => exact List.Sublist.refl _
  | cons r rs ih =>
    simp only [dropDupRows]
    exact List.Sublist.cons_cons r (List.filter_sublist.trans ih)

theorem findKey_dropDupRows (k : Key) (l : List Row) :
    findKey kf k (dropDupRows l) = findKey kf k l := by
  induction l with
  | nil => rfl
  | cons r rs ih =>
    simp only [dropDupRows, findKey_cons]
    by_cases h : kf r = k
    · simp [h]
    · simp only [h, if_false]
      rw [← ih]
      generalize dropDupRows rs = m
      induction m with
      | nil => rfl
      | cons q qs ihq =>
        by_cases hq : q = r
        · subst hq; simp [findKey_cons, h, ihq]
        · simp [hq, findKey_cons, ihq]

theorem dropDupRows_of_nodup_keys (l : List Row) (h : (l.map kf).Nodup) : dropDupRows l = l := by
  induction l with
  | nil => rfl
  | cons r rs ih =>
    simp only [List.map_cons, List.nodup_cons] at h
    simp only [dropDupRows, ih h.2]
    congr 1
    rw [List.filter_eq_self]
    intro q hq
    simp only [bne_iff_ne, ne_eq]
    intro hqr; subst hqr
    exact h.1 (List.mem_map_of_mem hq)

/-! ## the last row of every key -/

theorem dedupLast_sublist (l : List Row) : (dedupLast kf l).Sublist l := by
  induction l with
  | nil => exact List.Sublist.refl _
  | cons r rs ih =>
    simp only [dedupLast]
    split
    · exact List.Sublist.cons r ih
    · exact List.Sublist.cons_cons r ih

theorem nodup_keys_dedupLast (l : List Row) : ((dedupLast kf l).map kf).Nodup := by
  induction l with
  | nil => simp [dedupLast]
  | cons r rs ih =>
    simp only [dedupLast]
    split
    · exact ih
    · rename_i hany
      simp only [List.map_cons, List.nodup_cons]
      refine ⟨?_, ih⟩
      intro hmem
      obtain ⟨q, hq, hk⟩ := List.mem_map.mp hmem
      apply hany
      simp only [List.any_eq_true, beq_iff_eq]
      exact ⟨q, (dedupLast_sublist kf rs).subset hq, hk⟩

theorem findKey_dedupLast (k : Key) (l : List Row) : findKey kf k (dedupLast kf l) = findLast kf k l := by
  induction l with
  | nil => rfl
  | cons r rs ih =>
    simp only [dedupLast, findLast_cons]
    split
    · rename_i hany
      rw [ih]
      by_cases hr : kf r = k
      · simp only [List.any_eq_true, beq_iff_eq] at hany
        obtain ⟨q, hq, hk⟩ := hany
        cases hf : findLast kf k rs with
        | none => exact absurd (hk.trans hr) (findLast_eq_none (kf := kf) |>.mp hf q hq)
        | some x => simp
      · simp [hr]
    · rename_i hany
      rw [findKey_cons, ih]
      by_cases hr : kf r = k
      · have : findLast kf k rs = none := by
          rw [findLast_eq_none]
          intro q hq hk
          apply hany
          simp only [List.any_eq_true, beq_iff_eq]
          exact ⟨q, hq, hk.trans hr.symm⟩
        simp [hr, this]
      · simp [hr]

/-! ## extensionality of strictly sorted key maps -/

theorem findKey_head_ssorted {r : Row} {l : List Row} (h : SSorted kf (r :: l)) :
    findKey kf (kf r) l = none := by
  rw [findKey_eq_none]
  intro q hq hk
  exact ((List.pairwise_cons.mp h).1 q hq).2 hk.symm

theorem ssorted_ext : ∀ (x y : List Row), SSorted kf x → SSorted kf y →
    (∀ k, findKey kf k x = findKey kf k y) → x = y
  | [], [], _, _, _ => rfl
  | [], r :: _, _, _, h => by
    have := h (kf r); simp [findKey_cons] at this
  | r :: _, [], _, _, h => by
    have := h (kf r); simp [findKey_cons] at this
  | a :: as, b :: bs, hx, hy, h => by
    have hab : a = b := by
      have h1 := h (kf a)
      have h2 := h (kf b)
      simp only [findKey_cons, if_true] at h1 h2
      by_cases hk : kf b = kf a
      · simp only [hk, if_true] at h1
        exact Option.some.inj h1
      · exfalso
        have hk' : ¬ kf a = kf b := fun e => hk e.symm
        simp only [hk, if_false] at h1
        simp only [hk', if_false] at h2
        have hb := findKey_some kf h1.symm
        have ha := findKey_some kf h2
        have l1 := (List.pairwise_cons.mp hy).1 a hb.1
        have l2 := (List.pairwise_cons.mp hx).1 b ha.1
        exact klt_asymm l1 l2
    subst hab
    congr 1
    apply ssorted_ext as bs (List.pairwise_cons.mp hx).2 (List.pairwise_cons.mp hy).2
    intro k
    by_cases hk : kf a = k
    · subst hk
      rw [findKey_head_ssorted kf hx, findKey_head_ssorted kf hy]
    · have := h k
      simpa [findKey_cons, hk] using this

/-! ## commit of an indexed table -/

theorem findKey_createIndex (k : Key) (l : List Row) :
    findKey kf k (createIndex kf l) = findKey kf k l := by
  simp only [createIndex, findKey_dropDupRows, findKey_sortRows]

theorem createIndex_of_nodup_keys (l : List Row) (h : (l.map kf).Nodup) :
    createIndex kf l = sortRows kf l :=
  dropDupRows_of_nodup_keys kf _ ((keys_sortRows_perm kf l).nodup_iff.mpr h)

theorem mem_createIndex {r : Row} {l : List Row} (h : r ∈ createIndex kf l) : r ∈ l :=
  (sortRows_perm kf l).mem_iff.mp ((dropDupRows_sublist _).subset h)

theorem nodup_keys_createIndex (l : List Row) (h : (l.map kf).Nodup) :
    ((createIndex kf l).map kf).Nodup := by
  rw [createIndex_of_nodup_keys kf l h]
  exact (keys_sortRows_perm kf l).nodup_iff.mpr h

theorem hasKey_eq_false {l : List Row} {k : Key} : hasKey kf l k = false ↔ ∀ r ∈ l, kf r ≠ k := by
  simp [hasKey]

/-- what a key holds after `commit()`: the last buffered row of the key, else the row it had -/
theorem findKey_commitIdx (C B : List Row) (k : Key) :
    findKey kf k (commitIdx kf C B) = (findLast kf k B).or (findKey kf k C) := by
  have hb : findKey kf k (createIndex kf (dedupLast kf B)) = findLast kf k B := by
    rw [findKey_createIndex, findKey_dedupLast]
  simp only [commitIdx, findKey_sortRows, findKey_append]
  rw [findKey_filter kf (fun k => !hasKey kf (createIndex kf (dedupLast kf B)) k), hb]
  cases hl : findLast kf k B with
  | some b =>
    rw [hl] at hb
    have hmem := findKey_some kf hb
    have : hasKey kf (createIndex kf (dedupLast kf B)) k = true := by
      simp only [hasKey, List.any_eq_true, beq_iff_eq]
      exact ⟨b, hmem.1, hmem.2⟩
    simp [this]
  | none =>
    rw [hl] at hb
    have : hasKey kf (createIndex kf (dedupLast kf B)) k = false :=
      (hasKey_eq_false kf).mpr ((findKey_eq_none kf).mp hb)
    simp [this]

theorem mem_commitIdx {C B : List Row} {r : Row} (h : r ∈ commitIdx kf C B) : r ∈ C ∨ r ∈ B := by
  simp only [commitIdx] at h
  have h := (sortRows_perm kf _).mem_iff.mp h
  rcases List.mem_append.mp h with h | h
  · left; exact (List.mem_filter.mp h).1
  · right; exact (dedupLast_sublist kf B).subset (mem_createIndex kf h)

theorem ssorted_commitIdx (C B : List Row) (hC : (C.map kf).Nodup) : SSorted kf (commitIdx kf C B) := by
  simp only [commitIdx]
  apply ssorted_sortRows
  rw [List.map_append, List.nodup_append]
  refine ⟨List.Nodup.sublist (List.Sublist.map kf List.filter_sublist) hC,
          nodup_keys_createIndex kf _ (nodup_keys_dedupLast kf B), ?_⟩
  intro a ha b hb hab
  subst hab
  obtain ⟨c, hc, hck⟩ := List.mem_map.mp ha
  obtain ⟨q, hq, hk⟩ := List.mem_map.mp hb
  have hc2 := (List.mem_filter.mp hc).2
  simp only [Bool.not_eq_eq_eq_not, Bool.not_true] at hc2
  exact (hasKey_eq_false kf).mp hc2 q hq (hk.trans hck.symm)

/-! ## the abstract table's upsert -/

theorem findKey_upsert (r : Row) (l : List Row) (k : Key) :
    findKey kf k (upsert kf r l) = if kf r = k then some r else findKey kf k l := by
  induction l with
  | nil => simp [upsert, findKey_cons]
  | cons q qs ih =>
    simp only [upsert]
    split
    · rename_i hq
      simp only [findKey_cons, hq]
      by_cases h : kf r = k <;> simp [h]
    · rename_i hq
      split
      · simp [findKey_cons]
      · simp only [findKey_cons, ih]
        by_cases h : kf q = k
        · have : ¬ kf r = k := fun e => hq (h.trans e.symm)
          simp [h, this]
        · simp [h]

theorem mem_upsert {r a : Row} {l : List Row} (h : a ∈ upsert kf r l) : a = r ∨ a ∈ l := by
  induction l with
  | nil => simpa [upsert] using h
  | cons q qs ih =>
    simp only [upsert] at h
    split at h
    · rcases List.mem_cons.mp h with h | h
      · exact Or.inl h
      · exact Or.inr (List.mem_cons_of_mem _ h)
    · split at h
      · rcases List.mem_cons.mp h with h | h
        · exact Or.inl h
        · exact Or.inr h
      · rcases List.mem_cons.mp h with h | h
        · exact Or.inr (h ▸ List.mem_cons_self)
        · rcases ih h with h | h
          · exact Or.inl h
          · exact Or.inr (List.mem_cons_of_mem _ h)

theorem ssorted_upsert (r : Row) (l : List Row) (h : SSorted kf l) : SSorted kf (upsert kf r l) := by
  induction l with
  | nil => simp [upsert, SSorted]
  | cons q qs ih =>
    have hq := List.pairwise_cons.mp h
    simp only [upsert]
    split
    · rename_i hk
      refine List.pairwise_cons.mpr ⟨?_, hq.2⟩
      intro a ha
      rw [← hk]; exact hq.1 a ha
    · rename_i hk
      split
      · rename_i hle
        have hrq : klt (kf r) (kf q) := ⟨hle, fun e => hk e.symm⟩
        refine List.pairwise_cons.mpr ⟨?_, h⟩
        intro a ha
        rcases List.mem_cons.mp ha with rfl | ha
        · exact hrq
        · exact klt_trans hrq (hq.1 a ha)
      · rename_i hle
        refine List.pairwise_cons.mpr ⟨?_, ih hq.2⟩
        intro a ha
        rcases mem_upsert kf ha with rfl | ha
        · exact ⟨Key.le_of_not_le hle, hk⟩
        · exact hq.1 a ha

theorem ssorted_foldl_upsert (rs l : List Row) (h : SSorted kf l) :
    SSorted kf (rs.foldl (fun acc r => upsert kf r acc) l) := by
  induction rs generalizing l with
  | nil => exact h
  | cons r rs ih => exact ih _ (ssorted_upsert kf r l h)

theorem commitIdx_nil (C : List Row) (h : SSorted kf C) : commitIdx kf C [] = C := by
  apply ssorted_ext kf _ _ (ssorted_commitIdx kf C [] h.nodup) h
  intro k; simp [findKey_commitIdx, findLast_nil]

theorem commitIdx_snoc (C B : List Row) (r : Row) (h : SSorted kf C) :
    commitIdx kf C (B ++ [r]) = upsert kf r (commitIdx kf C B) := by
  apply ssorted_ext kf _ _ (ssorted_commitIdx kf C _ h.nodup)
    (ssorted_upsert kf r _ (ssorted_commitIdx kf C B h.nodup))
  intro k
  rw [findKey_upsert, findKey_commitIdx, findKey_commitIdx, findLast_append, findLast_single]
  by_cases hk : kf r = k <;> simp [hk]

theorem commitIdx_append_foldl (C B rs : List Row) (h : SSorted kf C) :
    commitIdx kf C (B ++ rs) = rs.foldl (fun acc r => upsert kf r acc) (commitIdx kf C B) := by
  induction rs generalizing B with
  | nil => simp
  | cons r rs ih =>
    have : B ++ r :: rs = (B ++ [r]) ++ rs := by simp
    rw [this, ih (B ++ [r]), commitIdx_snoc kf C B r h]
    rfl

end Keyed

/-- **commitIdx_spec** — what one `commit()` of an indexed table does, for every frame with
    one row per key and *every* buffer (any number of rows per key, in any order): the
    result is strictly sorted by key and holds, for every key, the last buffered row of the
    key if there is one and the row it held before otherwise. -/
theorem commitIdx_spec (kf : Row → Key) (C B : List Row) (hC : (C.map kf).Nodup) :
    SSorted kf (commitIdx kf C B) ∧
    ∀ k, findKey kf k (commitIdx kf C B) = (findLast kf k B).or (findKey kf k C) :=
  ⟨ssorted_commitIdx kf C B hC, findKey_commitIdx kf C B⟩

/-- **commit_twice_eq_once** — flushing after `B₁` and again after `B₂` gives the frame that
    one flush of `B₁ ++ B₂` gives: when the buffer is flushed cannot be observed. -/
theorem commit_twice_eq_once (kf : Row → Key) (C B₁ B₂ : List Row) (h : SSorted kf C) :
    commitIdx kf (commitIdx kf C B₁) B₂ = commitIdx kf C (B₁ ++ B₂) := by
  have h1 := ssorted_commitIdx kf C B₁ h.nodup
  apply ssorted_ext kf _ _ (ssorted_commitIdx kf _ B₂ h1.nodup) (ssorted_commitIdx kf C _ h.nodup)
  intro k
  simp only [findKey_commitIdx, findLast_append]
  cases findLast kf k B₂ <;> simp

/-! ## the machine: commit, invariant -/

@[simp] theorem commit_cols (t : Table) : (commit t).cols = t.cols := by
  unfold commit; split
  · rfl
  · split <;> rfl

@[simp] theorem commit_idx (t : Table) : (commit t).idx = t.idx := by
  unfold commit; split
  · rfl
  · split <;> rfl

@[simp] theorem commit_buffer (t : Table) : (commit t).buffer = [] := by
  unfold commit; split
  · rename_i h; simpa using h
  · split <;> rfl

theorem commit_of_nil (t : Table) (h : t.buffer = []) : commit t = t := by
  simp [commit, h]

@[simp] theorem commit_commit (t : Table) : commit (commit t) = commit t :=
  commit_of_nil _ (commit_buffer t)

@[simp] theorem content_commit (t : Table) : content (commit t) = content t := by
  simp [content]

theorem content_of_nil (t : Table) (h : t.buffer = []) : content t = t.committed := by
  simp [content, commit_of_nil t h]

theorem content_unindexed (t : Table) (h : t.idx = none) : content t = t.committed ++ t.buffer := by
  unfold content commit
  split
  · rename_i hb
    have : t.buffer = [] := by simpa using hb
    simp [this]
  · simp [h]

theorem content_indexed (t : Table) (ks : List Col) (hi : t.idx = some ks)
    (hs : SSorted (keyFn t.cols ks) t.committed) :
    content t = commitIdx (keyFn t.cols ks) t.committed t.buffer := by
  unfold content commit
  split
  · rename_i hb
    have : t.buffer = [] := by simpa using hb
    rw [this, commitIdx_nil _ _ hs]
  · simp [hi]

/-- representation invariant: the frame is rectangular and, when indexed, strictly sorted by
    the key columns (which exist) -/
structure Inv (t : Table) : Prop where
  wC : ∀ r ∈ t.committed, r.length = t.cols.length
  wB : ∀ r ∈ t.buffer, r.length = t.cols.length
  ix : ∀ ks, t.idx = some ks → (∀ k ∈ ks, k ∈ t.cols) ∧ SSorted (keyFn t.cols ks) t.committed

theorem rect_iff {rs : List Row} {w : Nat} : rect rs w = true ↔ ∀ r ∈ rs, r.length = w := by
  simp [rect]

theorem inv_create (cols : List Col) (rows : List Row) (h : rect rows cols.length = true) :
    Inv (create cols rows) :=
  ⟨rect_iff.mp h, by simp [create], by simp [create]⟩

theorem inv_commit (t : Table) (h : Inv t) : Inv (commit t) := by
  refine ⟨?_, by simp, ?_⟩
  · intro r hr
    rw [commit_cols]
    unfold commit at hr
    split at hr
    · exact h.wC r hr
    · split at hr
      · rcases List.mem_append.mp hr with hr | hr
        · exact h.wC r hr
        · exact h.wB r hr
      · rcases mem_commitIdx _ hr with hr | hr
        · exact h.wC r hr
        · exact h.wB r hr
  · intro ks hi
    rw [commit_idx] at hi
    rw [commit_cols]
    refine ⟨(h.ix ks hi).1, ?_⟩
    have hc : (commit t).committed = content t := rfl
    rw [hc, content_indexed t ks hi (h.ix ks hi).2]
    exact ssorted_commitIdx _ _ _ (h.ix ks hi).2.nodup

/-- keys do not move when a column is appended -/
theorem keyFn_addCell (cols ks : List Col) (c : Col) (r : Row) (v : Cell)
    (hks : ∀ k ∈ ks, k ∈ cols) (hw : r.length = cols.length) :
    keyFn (cols ++ [c]) ks (r ++ [v]) = keyFn cols ks r := by
  simp only [keyFn, keyOf, positions, List.map_map]
  apply List.map_congr_left
  intro k hk
  have hmem := hks k hk
  have hlt : cols.idxOf k < cols.length := List.idxOf_lt_length_of_mem hmem
  simp only [Function.comp, cellAt]
  rw [List.idxOf_append, if_pos hmem]
  rw [List.getD_eq_getElem?_getD, List.getD_eq_getElem?_getD, List.getElem?_append_left (by omega)]

theorem map_keyFn_addCells (cols ks : List Col) (c : Col) (hks : ∀ k ∈ ks, k ∈ cols) :
    ∀ (rows : List Row) (vs : List Cell), vs.length = rows.length →
      (∀ r ∈ rows, r.length = cols.length) →
      (addCells rows vs).map (keyFn (cols ++ [c]) ks) = rows.map (keyFn cols ks)
  | [], _, _, _ => by simp [addCells]
  | r :: rows, [], h, _ => by simp at h
  | r :: rows, v :: vs, h, hw => by
    simp only [addCells, List.zipWith_cons_cons, List.map_cons]
    rw [keyFn_addCell cols ks c r v hks (hw r List.mem_cons_self)]
    congr 1
    exact map_keyFn_addCells cols ks c hks rows vs (by simpa using h)
      (fun q hq => hw q (List.mem_cons_of_mem _ hq))

theorem mem_addCells {rows : List Row} {vs : List Cell} {x : Row} (h : x ∈ addCells rows vs) :
    ∃ r ∈ rows, ∃ v, x = r ++ [v] := by
  induction rows generalizing vs with
  | nil => simp [addCells] at h
  | cons r rows ih =>
    cases vs with
    | nil => simp [addCells] at h
    | cons v vs =>
      simp only [addCells, List.zipWith_cons_cons, List.mem_cons] at h
      rcases h with h | h
      · exact ⟨r, List.mem_cons_self, v, h⟩
      · obtain ⟨q, hq, w, hw⟩ := ih h
        exact ⟨q, List.mem_cons_of_mem _ hq, w, hw⟩

theorem ssorted_of_keys_eq {kf kg : Row → Key} {l m : List Row} (h : m.map kg = l.map kf)
    (hs : SSorted kf l) : SSorted kg m := by
  have h1 : (l.map kf).Pairwise klt := List.pairwise_map.mpr hs
  rw [← h] at h1
  exact List.pairwise_map.mp h1

theorem inv_step (t : Table) (op : Op) (h : Inv t) : Inv (step t op).1 := by
  have hc := inv_commit t h
  cases op with
  | insert r =>
    simp only [step]
    split
    · rename_i hw
      refine ⟨h.wC, ?_, h.ix⟩
      intro q hq
      rcases List.mem_append.mp hq with hq | hq
      · exact h.wB q hq
      · simp at hq; subst hq; exact hw
    · exact h
  | insertb rs =>
    simp only [step]
    split
    · exact h
    · rename_i r0 rest
      split
      · exact h
      · rename_i hrect
        split
        · rename_i hw
          refine ⟨h.wC, ?_, h.ix⟩
          intro q hq
          rcases List.mem_append.mp hq with hq | hq
          · exact h.wB q hq
          · have := rect_iff.mp (by simpa using hrect) q hq
            exact this.trans hw
        · exact h
  | readCol c => exact hc
  | count => exact hc
  | schema => exact h
  | selectAll => exact hc
  | rindex =>
    simp only [step]
    split
    · exact ⟨hc.wC, hc.wB, by simp⟩
    · exact h
  | index ks =>
    simp only [step]
    split
    · exact h
    · split
      · exact h
      · split
        · exact h
        · rename_i hsub
          split
          · exact hc
          · rename_i hnd
            have hnd' : ((commit t).committed.map (keyFn (commit t).cols ks)).Nodup := by
              simpa using hnd
            refine ⟨?_, by simp, ?_⟩
            · intro r hr
              exact hc.wC r (mem_createIndex _ hr)
            · intro ks' hi
              simp only [Option.some.injEq] at hi
              subst hi
              refine ⟨?_, ?_⟩
              · intro k hk
                have : ks ⊆ t.cols := by simpa using hsub
                simpa using this hk
              · show SSorted _ (createIndex _ _)
                rw [createIndex_of_nodup_keys _ _ hnd']
                exact ssorted_sortRows _ _ hnd'
  | addCol c vs =>
    simp only [step]
    split
    · exact hc
    · rename_i hnew
      split
      · rename_i hlen
        refine ⟨?_, by simp, ?_⟩
        · intro x hx
          obtain ⟨r, hr, v, rfl⟩ := mem_addCells hx
          simp [hc.wC r hr]
        · intro ks hi
          have hi' : (commit t).idx = some ks := hi
          obtain ⟨hks, hs⟩ := hc.ix ks hi'
          refine ⟨fun k hk => List.mem_append_left _ (hks k hk), ?_⟩
          exact ssorted_of_keys_eq
            (map_keyFn_addCells _ ks c hks _ vs hlen hc.wC) hs
      · split
        · exact hc
        · exact hc

theorem inv_run (t : Table) (ops : List Op) (h : Inv t) : Inv (run t ops).1 := by
  induction ops generalizing t with
  | nil => exact h
  | cons op ops ih => simp only [run]; exact ih _ (inv_step t op h)

/-! ## refinement: one step of the buffered machine is one step of the abstract table -/

theorem abs_of_nil (t : Table) (h : t.buffer = []) :
    abs t = { cols := t.cols, rows := t.committed, idx := t.idx } := by
  simp [abs, content_of_nil t h]

theorem abs_commit (t : Table) : abs (commit t) = abs t := by
  simp [abs]

/-- flushing a longer buffer = applying the extra rows to the abstract table one by one -/
theorem content_buffer_append (t : Table) (h : Inv t) (rs : List Row) :
    content { t with buffer := t.buffer ++ rs } = (abs t).ins rs := by
  have hcase : t.idx = none ∨ ∃ ks, t.idx = some ks := by
    cases t.idx <;> simp
  rcases hcase with hi | ⟨ks, hi⟩
  · rw [content_unindexed { t with buffer := t.buffer ++ rs } hi]
    simp [Spec.ins, abs, hi, content_unindexed t hi]
  · have hs := (h.ix ks hi).2
    rw [content_indexed { t with buffer := t.buffer ++ rs } ks hi hs]
    simp only [Spec.ins, abs, hi]
    rw [content_indexed t ks hi hs]
    exact commitIdx_append_foldl _ _ _ _ hs

theorem step_refines (t : Table) (op : Op) (h : Inv t) :
    (step t op).2 = (specStep (abs t) op).2 ∧ abs (step t op).1 = (specStep (abs t) op).1 := by
  have hcc : (commit t).committed = content t := rfl
  cases op with
  | insert r =>
    simp only [step, specStep]
    have : (abs t).cols = t.cols := rfl
    rw [this]
    split
    · refine ⟨rfl, ?_⟩
      simp only [abs]
      rw [content_buffer_append t h [r]]
      rfl
    · exact ⟨rfl, rfl⟩
  | insertb rs =>
    simp only [step, specStep]
    have : (abs t).cols = t.cols := rfl
    rw [this]
    split
    · exact ⟨rfl, rfl⟩
    · split
      · exact ⟨rfl, rfl⟩
      · split
        · refine ⟨rfl, ?_⟩
          simp only [abs]
          rw [content_buffer_append t h _]
          rfl
        · exact ⟨rfl, rfl⟩
  | readCol c =>
    simp only [step, specStep, abs_commit, commit_cols, hcc]
    exact ⟨rfl, trivial⟩
  | count =>
    simp only [step, specStep, abs_commit, hcc]
    exact ⟨rfl, trivial⟩
  | schema => exact ⟨rfl, rfl⟩
  | selectAll =>
    simp only [step, specStep, abs_commit, hcc]
    exact ⟨rfl, trivial⟩
  | rindex =>
    simp only [step, specStep]
    have : (abs t).idx = t.idx := rfl
    rw [this]
    split
    · refine ⟨rfl, ?_⟩
      rw [abs_of_nil _ (by simp)]
      simp [abs, hcc]
    · exact ⟨rfl, rfl⟩
  | index ks =>
    simp only [step, specStep]
    have h1 : (abs t).idx = t.idx := rfl
    have h2 : (abs t).cols = t.cols := rfl
    have h3 : (abs t).rows = content t := rfl
    rw [h1, h2, h3]
    split
    · exact ⟨rfl, rfl⟩
    · split
      · exact ⟨rfl, rfl⟩
      · split
        · exact ⟨rfl, rfl⟩
        · simp only [commit_cols, hcc]
          split
          · exact ⟨rfl, abs_commit t⟩
          · rename_i hnd
            refine ⟨rfl, ?_⟩
            rw [abs_of_nil _ (by simp)]
            rw [createIndex_of_nodup_keys _ _ (by simpa using hnd)]
  | addCol c vs =>
    simp only [step, specStep]
    have h2 : (abs t).cols = t.cols := rfl
    have h3 : (abs t).rows = content t := rfl
    rw [h2, h3]
    simp only [commit_cols, hcc]
    split
    · exact ⟨rfl, abs_commit t⟩
    · split
      · refine ⟨rfl, ?_⟩
        rw [abs_of_nil _ (by simp)]
        simp [abs]
      · split
        · exact ⟨rfl, abs_commit t⟩
        · exact ⟨rfl, abs_commit t⟩

/-! ## histories of inserts and reads -/

theorem step_data_meta (t : Table) (op : Op) (hd : op.isData = true) :
    (step t op).1.cols = t.cols ∧ (step t op).1.idx = t.idx := by
  cases op with
  | insert r => simp only [step]; split <;> exact ⟨rfl, rfl⟩
  | insertb rs =>
    simp only [step]
    split
    · exact ⟨rfl, rfl⟩
    · split
      · exact ⟨rfl, rfl⟩
      · split <;> exact ⟨rfl, rfl⟩
  | readCol c => simp [step]
  | count => simp [step]
  | schema => simp [step]
  | selectAll => simp [step]
  | rindex => simp [Op.isData] at hd
  | index ks => simp [Op.isData] at hd
  | addCol c vs => simp [Op.isData] at hd

/-- one insert/read step on the abstract table: exactly the rows it hands over are applied -/
theorem step_data_content (t : Table) (op : Op) (h : Inv t) (hd : op.isData = true) :
    content (step t op).1 = (abs t).ins (inserted t.cols.length [op]) := by
  have hnil : (abs t).ins [] = content t := by
    simp only [Spec.ins, abs]; split <;> simp
  cases op with
  | insert r =>
    simp only [step, inserted]
    split
    · simpa using content_buffer_append t h [r]
    · simpa using hnil.symm
  | insertb rs =>
    simp only [step, inserted]
    split
    · simpa using hnil.symm
    · rename_i r0 rest
      split
      · rename_i hr
        have : rect (r0 :: rest) r0.length = false := by simpa using hr
        simpa [this] using hnil.symm
      · rename_i hr
        have hr' : rect (r0 :: rest) r0.length = true := by simpa using hr
        split
        · rename_i hw
          have hr2 : rect (r0 :: rest) t.cols.length = true := hw ▸ hr'
          simpa [hr', hr2, hw] using content_buffer_append t h (r0 :: rest)
        · rename_i hw
          simpa [hr', hw] using hnil.symm
  | readCol c => simpa [step, inserted] using hnil.symm
  | count => simpa [step, inserted] using hnil.symm
  | schema => simpa [step, inserted] using hnil.symm
  | selectAll => simpa [step, inserted] using hnil.symm
  | rindex => simp [Op.isData] at hd
  | index ks => simp [Op.isData] at hd
  | addCol c vs => simp [Op.isData] at hd

theorem inserted_cons (w : Nat) (op : Op) (ops : List Op) :
    inserted w (op :: ops) = inserted w [op] ++ inserted w ops := by
  cases op <;> simp [inserted]

/-- a history of inserts and reads applies exactly the inserted rows, in order, to the
    abstract table -/
theorem run_data_content (ops : List Op) (t : Table) (h : Inv t)
    (hd : ∀ op ∈ ops, op.isData = true) :
    content (run t ops).1 = (abs t).ins (inserted t.cols.length ops) ∧
    (run t ops).1.cols = t.cols ∧ (run t ops).1.idx = t.idx := by
  induction ops generalizing t with
  | nil =>
    refine ⟨?_, rfl, rfl⟩
    simp only [run, inserted, Spec.ins, abs]; split <;> simp
  | cons op ops ih =>
    have hop := hd op List.mem_cons_self
    have hm := step_data_meta t op hop
    have hc := step_data_content t op h hop
    obtain ⟨i1, i2, i3⟩ := ih (step t op).1 (inv_step t op h) (fun o ho => hd o (List.mem_cons_of_mem _ ho))
    simp only [run]
    refine ⟨?_, i2.trans hm.1, i3.trans hm.2⟩
    rw [i1, hm.1, inserted_cons]
    simp only [Spec.ins, abs, hm.1, hm.2, hc]
    cases hi : t.idx with
    | none => simp
    | some ks => simp [List.foldl_append]

/-! ------------------------------------------------------------------------------------
  ## Property theorems (C19)
------------------------------------------------------------------------------------- -/

/-- **buffering_unobservable** — for every table state the code can reach and every
    operation history (create, insert one row, insert a batch, `t?col`, `#t`, `.schema`,
    `.index`, re-insert of a key, `.rindex`, `t,c,,v`, `select *`), in any interleaving:
    every reply is the reply of the abstract table that has no buffer and applies every
    insert at once, and what the table holds at the end is what the abstract table holds. -/
theorem buffering_unobservable (ops : List Op) (t : Table) (h : Inv t) :
    (run t ops).2 = (specRun (abs t) ops).2 ∧ abs (run t ops).1 = (specRun (abs t) ops).1 := by
  induction ops generalizing t with
  | nil => exact ⟨rfl, rfl⟩
  | cons op ops ih =>
    obtain ⟨h1, h2⟩ := step_refines t op h
    obtain ⟨i1, i2⟩ := ih (step t op).1 (inv_step t op h)
    simp only [run, specRun]
    rw [h2] at i1 i2
    exact ⟨by rw [h1, i1], i2⟩

/-- the same, from table creation: any rectangular set of initial columns -/
theorem buffering_unobservable_from_create (cols : List Col) (rows : List Row)
    (hr : rect rows cols.length = true) (ops : List Op) :
    (run (create cols rows) ops).2 = (specRun { cols, rows, idx := none } ops).2 := by
  have := (buffering_unobservable ops (create cols rows) (inv_create cols rows hr)).1
  simpa [abs, create, content_of_nil] using this

example :
    (run (create ["a", "b"] [[.num 4, .num 40], [.num 12, .num 120]])
      [.insert [.num 8, .num 80], .readCol "a", .index ["a"], .insert [.num 8, .num 84],
       .insert [.num 0, .num 0], .insert [.num 0, .num 4], .count, .selectAll, .rindex,
       .addCol "c" [.str [97], .str [], .str [98], .str [99]], .insertb [[.num 8, .num 1, .str []]], .selectAll]).2
    = [.table, .col (some [.num 4, .num 12, .num 8]), .names ["a"], .table, .table, .table, .n 4,
       .rows [[.num 0, .num 4], [.num 4, .num 40], [.num 8, .num 84], [.num 12, .num 120]], .n 1,
       .table, .table,
       .rows [[.num 0, .num 4, .str [97]], [.num 4, .num 40, .str []], [.num 8, .num 84, .str [98]],
              [.num 12, .num 120, .str [99]], [.num 8, .num 1, .str []]]] := by
  decide

/-- **unindexed_insertion_order** — an unindexed table, after any history of single inserts,
    batch inserts and reads in any interleaving, holds what it held before followed by the
    inserted rows in insertion order (and every read on the way returned the abstract table's
    answer, by `buffering_unobservable`). -/
theorem unindexed_insertion_order (t : Table) (h : Inv t) (hi : t.idx = none) (ops : List Op)
    (hd : ∀ op ∈ ops, op.isData = true) :
    content (run t ops).1 = content t ++ inserted t.cols.length ops := by
  rw [(run_data_content ops t h hd).1]
  simp [Spec.ins, abs, hi]

example :
    let t := create ["a"] [[.num 4]]
    let ops := [Op.insert [.num 8], .readCol "a", .insertb [[.num 4], [.num 0]], .count, .insert [.num 8]]
    content (run t ops).1 = [[.num 4], [.num 8], [.num 4], [.num 0], [.num 8]] := by decide

/-- **indexed_last_wins_sorted** — an indexed table, after any history of single inserts,
    batch inserts and reads in any interleaving (keys repeated at will, inside one batch,
    between two reads, or across reads), is strictly sorted by key and holds for every key
    the last row inserted with that key, or, if none was, the row it held before. -/
theorem indexed_last_wins_sorted (t : Table) (h : Inv t) (ks : List Col) (hi : t.idx = some ks)
    (ops : List Op) (hd : ∀ op ∈ ops, op.isData = true) :
    let kf := keyFn t.cols ks
    SSorted kf (content (run t ops).1) ∧
    ∀ k, findKey kf k (content (run t ops).1) =
      (findLast kf k (inserted t.cols.length ops)).or (findKey kf k (content t)) := by
  intro kf
  have hs : SSorted kf (content t) := by
    have := ((inv_commit t h).ix ks (by simpa using hi)).2
    simpa [content] using this
  have hc := (run_data_content ops t h hd).1
  have hins : (abs t).ins (inserted t.cols.length ops) =
      commitIdx kf (content t) (inserted t.cols.length ops) := by
    simp only [Spec.ins, abs, hi]
    have := commitIdx_append_foldl kf (content t) [] (inserted t.cols.length ops) hs
    rw [commitIdx_nil kf _ hs] at this
    simpa using this.symm
  rw [hc, hins]
  exact commitIdx_spec kf _ _ hs.nodup

/-- **indexed_one_row_per_key** — in particular no key has two rows -/
theorem indexed_one_row_per_key (t : Table) (h : Inv t) (ks : List Col) (hi : t.idx = some ks)
    (ops : List Op) (hd : ∀ op ∈ ops, op.isData = true) :
    ((content (run t ops).1).map (keyFn t.cols ks)).Nodup :=
  (indexed_last_wins_sorted t h ks hi ops hd).1.nodup

example :
    let t := (step (create ["a", "b"] [[.num 12, .num 1], [.num 4, .num 2]]) (.index ["a"])).1
    let ops := [Op.insert [.num 8, .num 3], .insert [.num 8, .num 4], .insert [.num 4, .num 5],
                .insert [.num 4, .num 6], .readCol "b", .insertb [[.num 0, .num 7], [.num 0, .num 8]]]
    t.idx = some ["a"] ∧
    content (run t ops).1 = [[.num 0, .num 8], [.num 4, .num 6], [.num 8, .num 4], [.num 12, .num 1]] := by
  decide

/-- **index_roundtrip_preserves_rows** — creating an index on columns whose values are unique
    (whatever is still buffered) is accepted, keeps exactly the rows the table held (as a
    permutation: none lost, none duplicated), now strictly sorted by key; dropping it again
    keeps the rows as they are. -/
theorem index_roundtrip_preserves_rows (t : Table) (hi : t.idx = none) (ks : List Col)
    (hne : ks ≠ []) (hnd : ks.Nodup) (hsub : ks ⊆ t.cols)
    (huniq : ((content t).map (keyFn t.cols ks)).Nodup) :
    let t1 := (step t (.index ks)).1
    let t2 := (step t1 .rindex).1
    (step t (.index ks)).2 = .names ks ∧ t1.idx = some ks ∧
    (content t1).Perm (content t) ∧ SSorted (keyFn t.cols ks) (content t1) ∧
    (step t1 .rindex).2 = .n 1 ∧ t2.idx = none ∧ content t2 = content t1 := by
  have hcc : (commit t).committed = content t := rfl
  have hstep : step t (.index ks) =
      ({ commit t with committed := createIndex (keyFn t.cols ks) (content t), idx := some ks }, .names ks) := by
    simp [step, hi, hne, hnd, hsub, hcc, huniq]
  intro t1 t2
  have ht1 : t1 = { commit t with committed := createIndex (keyFn t.cols ks) (content t), idx := some ks } := by
    simp only [t1, hstep]
  have hb1 : t1.buffer = [] := by rw [ht1]; simp
  have hc1 : content t1 = sortRows (keyFn t.cols ks) (content t) := by
    rw [content_of_nil t1 hb1, ht1]
    exact createIndex_of_nodup_keys _ _ huniq
  have hi1 : t1.idx = some ks := by rw [ht1]
  have hstep2 : step t1 .rindex = ({ commit t1 with idx := none }, .n 1) := by
    simp [step, hi1]
  refine ⟨by rw [hstep], hi1, ?_, ?_, by rw [hstep2], ?_, ?_⟩
  · rw [hc1]; exact sortRows_perm _ _
  · rw [hc1]; exact ssorted_sortRows _ _ huniq
  · simp only [t2, hstep2]
  · simp only [t2, hstep2]
    rw [content_of_nil _ (by simp)]
    rfl

example :
    let t := (step (create ["a", "b"] [[.num 12, .str [98]], [.num 4, .str [97]]]) (.insert [.num 8, .str []])).1
    let t1 := (step t (.index ["a"])).1
    let t2 := (step t1 .rindex).1
    content t = [[.num 12, .str [98]], [.num 4, .str [97]], [.num 8, .str []]] ∧
    content t2 = [[.num 4, .str [97]], [.num 8, .str []], [.num 12, .str [98]]] := by decide

/-! ### the pinned tree (before branch fix-c19) does not have the property -/

/-- `.insert(t;row); t?"a"` : the column read ignores the buffered row, while `#t` counts it -/
theorem pinned_read_ignores_buffer :
    let t := (step (create ["a"] [[.num 4]]) (.insert [.num 8])).1
    (Pinned.readCol t "a").2 = .col (some [.num 4]) ∧ (Pinned.count t).2 = .n 2 ∧
    (step t (.readCol "a")).2 = .col (some [.num 4, .num 8]) := by decide

/-- two inserts of one new key into an indexed table before a read: two rows for the key -/
theorem pinned_same_new_key_twice :
    let t : Table := { cols := ["a", "b"], committed := [[.num 4, .num 1]], buffer := [], idx := some ["a"] }
    let t' := (run t [.insert [.num 8, .num 2], .insert [.num 8, .num 3]]).1
    (Pinned.commit t').committed = [[.num 4, .num 1], [.num 8, .num 2], [.num 8, .num 3]] ∧
    content t' = [[.num 4, .num 1], [.num 8, .num 3]] := by decide

end Klong.C19
