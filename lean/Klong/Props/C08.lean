import Klong.Model.C08
namespace Klong.C08
end Klong.C08
