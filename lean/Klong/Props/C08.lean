/-
  C08 — property theorems: the torch facade agrees with numpy's ufunc semantics on integer
  tensors of every rank, hence numeric programs denote the same value and kind under both
  providers; every IR the expression compiler emits is accepted by both code generators.

  Every agreement theorem takes `h : Agree T NP` — "the abstract tensor library T computes,
  primitive by primitive, what the reference library NP does" — as a HYPOTHESIS (validated
  empirically on every run by the micro-correspondence of vlib/c08.py against real torch and
  real numpy); nothing here is an axiom.
-/
import Klong.Model.C08
import Klong.Generated.C08Tables
namespace Klong.C08

/-! ## helper lemmas -/

theorem NP_ew (op : EOp) (a b : Flat) : NP.ew op a b = ewWith op.ap a b := rfl
theorem NP_pow (a b : Flat) : NP.pow a b = ewWith (fun x y => x ^ y.toNat) a b := rfl
theorem NP_toInt (a : Flat) : NP.toInt a = a := rfl
theorem NP_floorF32 (a : Flat) : NP.floorF32 a = ⟨a.shape, a.data.map f32round⟩ := rfl
theorem NP_sum0 (R : Rows) :
    NP.sum0 R = ⟨R.inner, foldRows .add (List.replicate (prodN R.inner) 0) R.rows⟩ := rfl
theorem NP_prod0 (R : Rows) :
    NP.prod0 R = ⟨R.inner, foldRows .mul (List.replicate (prodN R.inner) 1) R.rows⟩ := rfl
theorem NP_sumAll (R : Rows) : NP.sumAll R = .scalar (R.rows.flatten.foldl (· + ·) 0) := rfl
theorem NP_amin (R : Rows) : NP.amin R = (minList R.rows.flatten).map Flat.scalar := rfl
theorem NP_amax (R : Rows) : NP.amax R = (maxList R.rows.flatten).map Flat.scalar := rfl
theorem NP_row (R : Rows) (i : Nat) : NP.row R i = R.rows[i]?.map (fun r => ⟨R.inner, r⟩) := rfl
theorem NP_tail (R : Rows) : NP.tail R = ⟨R.inner, R.rows.tail⟩ := rfl
theorem NP_stack (ts : List Flat) : NP.stack ts = stackRows ts := rfl
theorem NP_cumsum0_nil (inner : List Nat) : NP.cumsum0 ⟨inner, []⟩ = ⟨inner, []⟩ := rfl
theorem NP_cumsum0_cons (inner : List Nat) (r : List Int) (rs : List (List Int)) :
    NP.cumsum0 ⟨inner, r :: rs⟩ = ⟨inner, scanRows .add r rs⟩ := rfl
theorem NP_cumprod0_nil (inner : List Nat) : NP.cumprod0 ⟨inner, []⟩ = ⟨inner, []⟩ := rfl
theorem NP_cumprod0_cons (inner : List Nat) (r : List Int) (rs : List (List Int)) :
    NP.cumprod0 ⟨inner, r :: rs⟩ = ⟨inner, scanRows .mul r rs⟩ := rfl

theorem zipWith_sub_add (r acc x : List Int) :
    List.zipWith EOp.sub.ap r (List.zipWith EOp.add.ap acc x)
      = List.zipWith EOp.sub.ap (List.zipWith EOp.sub.ap r acc) x := by
  induction r generalizing acc x with
  | nil => simp
  | cons a r ih =>
    cases acc with
    | nil => simp
    | cons b acc =>
      cases x with
      | nil => simp
      | cons c x => simp [EOp.ap, ih]; omega

/-- subtracting a sum is folding subtraction: `r − (acc + x1 + … + xn) = ((r − acc) − x1) − … − xn` -/
theorem sub_foldAdd (rs : List (List Int)) (acc r : List Int) :
    vop .sub r (foldRows .add acc rs) = foldRows .sub (vop .sub r acc) rs := by
  induction rs generalizing acc with
  | nil => rfl
  | cons x rs ih =>
    simp only [foldRows, List.foldl_cons] at ih ⊢
    rw [ih (vop .add acc x)]
    simp only [vop, zipWith_sub_add]

theorem zipWith_sub_zeros (r : List Int) : List.zipWith EOp.sub.ap r (List.replicate r.length 0) = r := by
  induction r with
  | nil => rfl
  | cons a r ih => simp [List.replicate_succ, EOp.ap, ih]

theorem wf_head {inner : List Nat} {r : List Int} {rs : List (List Int)}
    (hw : Rows.wf ⟨inner, r :: rs⟩ = true) : r.length = prodN inner := by
  simp [Rows.wf] at hw
  exact hw.1

theorem stackRows_map (inner : List Nat) (l : List (List Int)) (hl : l ≠ []) :
    stackRows (l.map (fun d => (⟨inner, d⟩ : Flat))) = some ⟨inner, l⟩ := by
  cases l with
  | nil => exact absurd rfl hl
  | cons d ds => simp [stackRows, List.all_map, Function.comp_def]

theorem scanRows_ne_nil (op : EOp) (acc : List Int) (rs : List (List Int)) : scanRows op acc rs ≠ [] := by
  cases rs <;> simp [scanRows]

/-- the Python accumulate loop over the rows from index `i` on is the running fold -/
theorem accLoop_scan (op : EOp) (R : Rows) (rest : List (List Int)) :
    ∀ (i : Nat) (acc : List Int), R.rows.drop i = rest →
      accLoop NP op R rest.length i ⟨R.inner, acc⟩
        = some ((scanRows op acc rest).map (fun d => (⟨R.inner, d⟩ : Flat))) := by
  induction rest with
  | nil => intro i acc _; simp [accLoop, scanRows]
  | cons x rest ih =>
    intro i acc hd
    have hi : R.rows[i]? = some x := by
      have := congrArg List.head? hd
      simpa [List.head?_drop] using this
    have hd' : R.rows.drop (i + 1) = rest := by
      have := congrArg List.tail hd
      simpa [List.tail_drop] using this
    have hew : NP.ew op ⟨R.inner, acc⟩ ⟨R.inner, x⟩ = some ⟨R.inner, vop op acc x⟩ := by
      simp [NP_ew, ewWith, vop]
    simp only [List.length_cons, accLoop, NP_row, hi, Option.map_some, Option.bind_some, hew,
      ih (i + 1) _ hd', scanRows, List.map_cons]

/-! ## the facade agrees with numpy's ufunc semantics -/

/-- the hypothesis of the theorems below is satisfiable (non-vacuity) -/
theorem agree_refl : Agree NP NP := by
  constructor <;> intros <;> rfl

/-- TorchUfunc.__call__, minimum/maximum, less/greater and safe_equal: every operand mix
    (tensor/tensor, tensor/Python scalar, two Python scalars) ends in the same element-wise
    computation numpy performs -/
theorem facade_ufunc_agrees {T : Lib} (h : Agree T NP) (op : EOp) (a b : Arg) :
    facadeUfunc T op a b = npUfunc op a b := by
  cases op <;> cases a <;> cases b <;>
    simp [facadeUfunc, npUfunc, h.ew, Arg.lift, NP_ew, ewWith, Flat.scalar, EOp.ap]

example : facadeUfunc NP .max (.py 3) (.tn ⟨[3], [1, 5, 2]⟩) = some ⟨[3], [3, 5, 3]⟩ := by decide

/-- TorchUfunc.reduce after the repair (`axis=0`; subtract as `a[0] − sum(a[1:], dim=0)`)
    is numpy's ufunc.reduce along axis 0 on every well-formed integer tensor of rank ≥ 1 -/
theorem facade_reduce_agrees {T : Lib} (h : Agree T NP) (op : AOp) (R : Rows) (hw : R.wf = true) :
    facadeReduce T op R = npReduce op R := by
  cases op with
  | add => simp [facadeReduce, npReduce, h.sum0, NP_sum0]
  | mul => simp [facadeReduce, npReduce, h.prod0, NP_prod0]
  | min => simp [facadeReduce, npReduce, h.amin, NP_amin]
  | max => simp [facadeReduce, npReduce, h.amax, NP_amax]
  | div => rfl
  | sub =>
    obtain ⟨inner, rows⟩ := R
    cases rows with
    | nil => simp [facadeReduce, npReduce, h.row, NP_row]
    | cons r rs =>
      have hl := wf_head hw
      simp only [facadeReduce, npReduce, h.row, h.ew, h.sum0, h.tail, NP_row, NP_ew, NP_sum0, NP_tail,
        List.getElem?_cons_zero, Option.map_some, Option.bind_some, List.tail_cons, ewWith, if_true]
      have := sub_foldAdd rs (List.replicate (prodN inner) 0) r
      simp only [vop] at this
      rw [this, ← hl, zipWith_sub_zeros]

example : facadeReduce NP .sub ⟨[2], [[1, 2], [3, 4]]⟩ = some ⟨[2], [-2, -2]⟩ := by decide
example : facadeReduce NP .add ⟨[2], [[1, 2], [3, 4]]⟩ = some ⟨[2], [4, 6]⟩ := by decide

/-- TorchUfunc.accumulate: cumsum / cumprod and the `cumulative_subtract` loop followed by
    torch.stack are numpy's ufunc.accumulate along axis 0 -/
theorem facade_accumulate_agrees {T : Lib} (h : Agree T NP) (op : AOp) (R : Rows)
    (hop : op = .add ∨ op = .sub ∨ op = .mul) (hne : R.rows ≠ []) :
    facadeAccumulate T op R = npAccumulate op R := by
  obtain ⟨inner, rows⟩ := R
  rcases hop with rfl | rfl | rfl
  · cases rows <;>
      simp [facadeAccumulate, npAccumulate, AOp.arith, h.cumsum0, NP_cumsum0_nil, NP_cumsum0_cons]
  · have hT : accLoop T = accLoop NP := by
      funext op R fuel
      induction fuel with
      | zero => funext i last; simp [accLoop]
      | succ n ih => funext i last; simp [accLoop, h.row, h.ew, ih]
    cases rows with
    | nil => exact absurd rfl hne
    | cons r rs =>
      have hs : T.stack = NP.stack := funext h.stack
      have := accLoop_scan .sub ⟨inner, r :: rs⟩ rs 1 r (by simp)
      simp only [facadeAccumulate, npAccumulate, AOp.arith, h.row, hT, hs, NP_row, NP_stack,
        List.getElem?_cons_zero, Option.map_some, Option.bind_some, List.length_cons,
        Nat.add_sub_cancel, this, stackRows_map inner _ (scanRows_ne_nil .sub r rs)]
  · cases rows <;>
      simp [facadeAccumulate, npAccumulate, AOp.arith, h.cumprod0, NP_cumprod0_nil, NP_cumprod0_cons]

example : facadeAccumulate NP .sub ⟨[2], [[1, 2], [3, 4], [10, 20]]⟩
    = some ⟨[2], [[1, 2], [-2, -2], [-12, -22]]⟩ := by decide

/-- floor_to_int after the repair returns an integer tensor as it is, like numpy's -/
theorem floor_agrees {T : Lib} (h : Agree T NP) (a : Arg) : floorToInt T a = npFloor a := by
  simp [floorToInt, npFloor, h.toInt, NP_toInt]

example : floorToInt NP (.py 16777217) = some (.scalar 16777217) := by decide

/-- TorchBackendProvider.power on non-negative integer exponents: Tensor.pow for a tensor
    base, numpy.power for a Python-scalar base — numpy's power either way -/
theorem power_agrees {T : Lib} (h : Agree T NP) (a b : Arg) : power T a b = npPower a b := by
  cases a <;> simp [power, npPower, h.pow, Arg.lift]

example : power NP (.tn ⟨[3], [1, 2, 3]⟩) (.py 2) = some ⟨[3], [1, 4, 9]⟩ := by decide

/-- the divide reduce loop `result = rows[0]; for x in rows[1:]: result = result / x`
    (whatever the element division `dv` computes — float32 or float64) is the left fold numpy's
    divide.reduce performs along axis 0 -/
def divLoop {α : Type} (dv : α → α → α) : α → List α → α
  | acc, [] => acc
  | acc, x :: xs => divLoop dv (dv acc x) xs

theorem divide_loop_is_fold {α : Type} (dv : α → α → α) (r : α) (rs : List α) :
    divLoop dv r rs = rs.foldl dv r := by
  induction rs generalizing r with
  | nil => rfl
  | cons x xs ih => simp [divLoop, ih]

/-! ## programs -/

/-- every guarded provider call of the torch facade equals the numpy provider's -/
theorem provider_agrees {T : Lib} (h : Agree T NP) : (torchP T).guard = numpyP.guard := by
  have hu : facadeUfunc T = npUfunc := by funext op a b; exact facade_ufunc_agrees h op a b
  have hf : floorToInt T = npFloor := by funext a; exact floor_agrees h a
  have hp : power T = npPower := by funext a b; exact power_agrees h a b
  have hneg : T.neg = NP.neg := funext h.neg
  have hstack : T.stack = NP.stack := funext h.stack
  have hrow : T.row = NP.row := by funext R i; exact h.row R i
  have hflip : T.flip0 = NP.flip0 := funext h.flip0
  have hslice : T.slice0 = NP.slice0 := by funext R i j; exact h.slice0 R i j
  have hcat : T.cat0 = NP.cat0 := by funext A B; exact h.cat0 A B
  have htile : T.tile0 = NP.tile0 := by funext R k; exact h.tile0 R k
  simp only [Provider.guard, torchP, numpyP, hu, hf, hp, hneg, hstack, hrow, hflip, hslice, hcat, htile]
  congr 1
  · funext op R
    by_cases hw : R.wf = true
    · simp [hw, facade_reduce_agrees h op R hw]
    · simp [hw]
  · funext op R
    by_cases hne : R.rows = []
    · simp [hne]
    by_cases hop : op = .add ∨ op = .sub ∨ op = .mul
    · simp [facade_accumulate_agrees h op R hop hne]
    · have : facadeAccumulate T op R = none ∧ npAccumulate op R = none := by
        cases op <;> simp_all [facadeAccumulate, npAccumulate, AOp.arith]
      simp [this.1, this.2]

/-- a program of the numeric core grammar denotes the same value, shape and integer/real
    kind under the torch facade and under numpy, for every environment (the denotation
    reaches a provider only through its guarded calls, so this is `provider_agrees` lifted
    through every construct of the grammar at once) -/
theorem program_agrees {T : Lib} (h : Agree T NP) (e : Expr) (env : List V) :
    den (torchP T) e env = den numpyP e env := by
  simp only [den, provider_agrees h]

example : den (torchP NP) (.over .sub (.var 0)) [.tn ⟨[2, 2], [1, 2, 3, 4]⟩]
    = .ok (.tn ⟨[2], [-2, -2]⟩) := by decide

example : den numpyP (.each (.dy .add (.var 3) (.lit 1)) (.scan .add (.var 0))) [.tn ⟨[3], [1, 2, 3]⟩, .py 0, .py 0]
    = .ok (.tn ⟨[3], [2, 4, 7]⟩) := by decide

/-! ## the pinned tree (before the fix commits) violates the property: witnesses -/

/-- Over with minus on `[[1 2] [3 4]]`: `a[0] − torch.sum(a[1:])` gives `[-6 -5]`, numpy `[-2 -2]` -/
theorem pinned_reduce_sub_disagrees :
    facadeReducePinned NP .sub ⟨[2], [[1, 2], [3, 4]]⟩ = some ⟨[2], [-6, -5]⟩ ∧
    npReduce .sub ⟨[2], [[1, 2], [3, 4]]⟩ = some ⟨[2], [-2, -2]⟩ := by decide

/-- `+/[[1 2] [3 4]]`: `torch.sum(a)` gives `10`, numpy `[4 6]` -/
theorem pinned_reduce_add_disagrees :
    facadeReducePinned NP .add ⟨[2], [[1, 2], [3, 4]]⟩ = some (.scalar 10) ∧
    npReduce .add ⟨[2], [[1, 2], [3, 4]]⟩ = some ⟨[2], [4, 6]⟩ := by decide

theorem foldl_singletons (op : EOp) (f : Int → Int → Int) (hf : ∀ a b, op.ap a b = f a b)
    (rows : List (List Int)) (hr : ∀ r ∈ rows, r.length = 1) (acc : Int) :
    foldRows op [acc] rows = [rows.flatten.foldl f acc] := by
  induction rows generalizing acc with
  | nil => rfl
  | cons r rs ih =>
    have h1 := hr r (by simp)
    match r, h1 with
    | [x], _ =>
      simp only [foldRows, List.foldl_cons, vop, List.zipWith_cons_cons, List.zipWith_nil_right,
        List.flatten_cons, List.singleton_append] at ih ⊢
      rw [ih (fun r hr' => hr r (by simp [hr'])), hf]

/-- on vectors (rank 1) the pinned reduce was right: summing all the remaining elements is
    summing along axis 0 -/
theorem pinned_reduce_rank1_partial {T : Lib} (h : Agree T NP) (R : Rows) (hw : R.wf = true)
    (h1 : R.inner = []) (op : AOp) (hop : op = .add ∨ op = .sub) :
    facadeReducePinned T op R = npReduce op R := by
  obtain ⟨inner, rows⟩ := R
  simp only at h1
  subst h1
  have hr : ∀ r ∈ rows, r.length = 1 := by
    intro r hr
    simp [Rows.wf, prodN] at hw
    exact hw r hr
  rcases hop with rfl | rfl
  · simp only [facadeReducePinned, npReduce, h.sumAll, NP_sumAll, prodN, Flat.scalar, List.replicate_one]
    rw [foldl_singletons .add (· + ·) (fun _ _ => rfl) rows hr 0]
  · cases rows with
    | nil => simp [facadeReducePinned, npReduce, h.row, NP_row]
    | cons r rs =>
      have h0 := hr r (by simp)
      match r, h0 with
      | [x], _ =>
        have hrs : ∀ r ∈ rs, r.length = 1 := fun r hr' => hr r (by simp [hr'])
        simp only [facadeReducePinned, npReduce, h.row, h.ew, h.sumAll, h.tail, NP_row, NP_ew, NP_sumAll,
          NP_tail, List.getElem?_cons_zero, Option.map_some, Option.bind_some, List.tail_cons,
          ewWith, Flat.scalar, if_true, List.zipWith_cons_cons, List.zipWith_nil_right]
        have h2 := sub_foldAdd rs [0] [x]
        rw [foldl_singletons .add (· + ·) (fun _ _ => rfl) rs hrs 0] at h2
        simp only [vop, List.zipWith_cons_cons, List.zipWith_nil_right, EOp.ap, Int.sub_zero] at h2
        simp only [EOp.ap]
        rw [h2]

example : facadeReducePinned NP .sub ⟨[], [[5], [1], [2]]⟩ = some ⟨[], [2]⟩ := by decide

/-- `_16777217`: `floor(a.float())` rounds to float32 and gives 16777216 -/
theorem pinned_floor_disagrees :
    floorToIntPinned NP (.py 16777217) = some (.scalar 16777216) ∧
    npFloor (.py 16777217) = some (.scalar 16777217) := by decide

/-- below 2^24 the pinned floor was right -/
theorem pinned_floor_partial {T : Lib} (h : Agree T NP) (n : Int) (hn : n.natAbs < 2 ^ 24) :
    floorToIntPinned T (.py n) = npFloor (.py n) := by
  simp [floorToIntPinned, npFloor, h.floorF32, NP_floorF32, Arg.lift, Flat.scalar, f32round, hn]

example : (5 : Int).natAbs < 2 ^ 24 := by decide

/-- known finding (not repaired): `%\` of a single integer row keeps the integer kind on
    torch and is real on numpy; with two or more rows, or a real operand, the kinds agree -/
theorem scan_divide_single_row_kind_differs :
    facadeScanDivKind 1 .int ≠ npScanDivKind 1 .int ∧
    (∀ n k, n ≠ 1 ∨ k = .real → facadeScanDivKind n k = npScanDivKind n k) := by
  refine ⟨by decide, ?_⟩
  intro n k hk
  rcases hk with hn | rfl
  · simp [facadeScanDivKind, npScanDivKind, hn]
  · simp [facadeScanDivKind, npScanDivKind]

/-! ## every compilable program is accepted by both backends -/

open Klong.Generated.C08

/-- the IR of klongpy/compiler.py (`_ast_to_ir`) -/
inductive IR
  | literal
  | var
  | binop (op : String) (l r : IR)
  | cmp (op : String) (l r : IR)
  | negate (c : IR)
  | reduce (op : String) (a : IR)
  | scan (op : String) (a : IR)

/-- what `_ast_to_ir` can return: operators drawn from the compiler's own sets -/
def Emittable : IR → Prop
  | .literal => True
  | .var => True
  | .binop op l r => op ∈ compilerArith ∧ Emittable l ∧ Emittable r
  | .cmp op l r => op ∈ compilerCmp ∧ Emittable l ∧ Emittable r
  | .negate c => Emittable c
  | .reduce op a => op ∈ compilerReduceScan ∧ Emittable a
  | .scan op a => op ∈ compilerReduceScan ∧ Emittable a

inductive Outcome
  | code        -- a Python source string: compile_expr_ir returns a callable
  | fallback    -- `_ir_to_source` returns None: compile_expr_ir returns None, the interpreter runs
  | raises      -- KeyError / unhandled node: the backend does not accept the program
deriving DecidableEq, Repr

structure Tables where
  kinds : List String
  binop : List String
  cmp : List String
  reduce : List String
  scan : List String
  missingIsNone : Bool
  defaultIsNone : Bool

def numpyTables : Tables := ⟨numpyKinds, numpyBinop, numpyCmp, numpyReduce, numpyScan, numpyMissingIsNone, numpyDefaultIsNone⟩
def torchTables : Tables := ⟨torchKinds, torchBinop, torchCmp, torchReduce, torchScan, torchMissingIsNone, torchDefaultIsNone⟩

def Outcome.seq : Outcome → Outcome → Outcome
  | .raises, _ => .raises
  | .fallback, _ => .fallback        -- `if l is None or r is None: return None` (l is evaluated first)
  | .code, o => o

def lookup (t : Tables) (tbl : List String) (op : String) : Outcome :=
  if op ∈ tbl then .code else if t.missingIsNone then .fallback else .raises

def unhandled (t : Tables) : Outcome := if t.defaultIsNone then .fallback else .raises

/-- `_ir_to_source` of one backend, as far as acceptance goes.  A kind's table is the union of
    the literal dictionaries its branch tries in turn (`+ - *` as Python operators, then `% ^`
    as calls of the verbs; `+ *` as ufunc.reduce, then `| &` guarded), as the translator reads
    them; `missingIsNone` says every such chain ends in `return None`. -/
def gen (t : Tables) : IR → Outcome
  | .literal => if "literal" ∈ t.kinds then .code else unhandled t
  | .var => if "var" ∈ t.kinds then .code else unhandled t
  | .binop op l r =>
    if "binop" ∈ t.kinds then
      match (gen t l).seq (gen t r) with
      | .code => lookup t t.binop op
      | o => o
    else unhandled t
  | .cmp op l r =>
    if "cmp" ∈ t.kinds then
      match (gen t l).seq (gen t r) with
      | .code => lookup t t.cmp op
      | o => o
    else unhandled t
  | .negate c => if "negate" ∈ t.kinds then gen t c else unhandled t
  | .reduce op a =>
    if "reduce" ∈ t.kinds then
      match gen t a with
      | .code => lookup t t.reduce op
      | o => o
    else unhandled t
  | .scan op a =>
    if "scan" ∈ t.kinds then
      match gen t a with
      | .code => lookup t t.scan op
      | o => o
    else unhandled t

/-- facts about the regenerated tables, decided by the kernel on every run -/
theorem tables_facts :
    (compilerKinds.all (fun k => k ∈ torchKinds ∧ k ∈ numpyKinds) = true) ∧
    (compilerArith.all (fun o => o ∈ torchBinop) = true) ∧
    (compilerCmp.all (fun o => o ∈ torchCmp) = true) ∧
    (compilerReduceScan.all (fun o => o ∈ torchReduce ∧ o ∈ torchScan) = true) ∧
    numpyMissingIsNone = true ∧ numpyDefaultIsNone = true ∧
    torchMissingIsNone = true ∧ torchDefaultIsNone = true ∧
    (["literal", "var", "binop", "cmp", "negate", "reduce", "scan"].all (fun k => k ∈ compilerKinds) = true) := by
  decide

theorem never_raises (t : Tables) (hm : t.missingIsNone = true) (hd : t.defaultIsNone = true) (ir : IR) :
    gen t ir ≠ .raises := by
  have hl : ∀ tbl op, lookup t tbl op ≠ .raises := by
    intro tbl op; unfold lookup; split <;> simp
  have hu : unhandled t ≠ .raises := by simp [unhandled, hd]
  induction ir with
  | literal => unfold gen; split <;> simp [hu]
  | var => unfold gen; split <;> simp [hu]
  | binop op l r ihl ihr =>
    unfold gen; split
    · cases hgl : gen t l <;> cases hgr : gen t r <;> simp_all [Outcome.seq]
    · exact hu
  | cmp op l r ihl ihr =>
    unfold gen; split
    · cases hgl : gen t l <;> cases hgr : gen t r <;> simp_all [Outcome.seq]
    · exact hu
  | negate c ih => unfold gen; split <;> simp_all
  | reduce op a ih =>
    unfold gen; split
    · cases hga : gen t a <;> simp_all
    · exact hu
  | scan op a ih =>
    unfold gen; split
    · cases hga : gen t a <;> simp_all
    · exact hu

/-- every program built only from operations the expression compiler handles is accepted by
    both backends: neither `_ir_to_source` can raise on an emitted IR — an operator missing from
    a table (numpy has no `|\` `&\`) makes it return None, i.e. the interpreter path -/
theorem compilable_accepted_by_both (ir : IR) (_he : Emittable ir) :
    gen numpyTables ir ≠ .raises ∧ gen torchTables ir ≠ .raises := by
  have hf := tables_facts
  exact ⟨never_raises numpyTables hf.2.2.2.2.1 hf.2.2.2.2.2.1 ir,
         never_raises torchTables hf.2.2.2.2.2.2.1 hf.2.2.2.2.2.2.2.1 ir⟩

/-- the torch table is complete: it generates code for every IR the compiler can emit -/
theorem torch_generates_code_for_every_emittable (ir : IR) (he : Emittable ir) :
    gen torchTables ir = .code := by
  have hf := tables_facts
  have hk : ∀ k ∈ ["literal", "var", "binop", "cmp", "negate", "reduce", "scan"], k ∈ torchKinds := by
    intro k hk
    have h1 := List.all_eq_true.mp hf.2.2.2.2.2.2.2.2 k hk
    have h2 := List.all_eq_true.mp hf.1 k (by simpa using h1)
    simp at h2; exact h2.1
  have hb : ∀ o ∈ compilerArith, o ∈ torchBinop := fun o ho => by
    simpa using List.all_eq_true.mp hf.2.1 o ho
  have hc : ∀ o ∈ compilerCmp, o ∈ torchCmp := fun o ho => by
    simpa using List.all_eq_true.mp hf.2.2.1 o ho
  have hrs : ∀ o ∈ compilerReduceScan, o ∈ torchReduce ∧ o ∈ torchScan := fun o ho => by
    simpa using List.all_eq_true.mp hf.2.2.2.1 o ho
  induction ir with
  | literal => simp [gen, torchTables, hk "literal" (by simp)]
  | var => simp [gen, torchTables, hk "var" (by simp)]
  | binop op l r ihl ihr =>
    obtain ⟨ho, hl, hr⟩ := he
    simp [gen, torchTables, hk "binop" (by simp)]
    simp only [torchTables] at ihl ihr
    simp [ihl hl, ihr hr, Outcome.seq, lookup, hb op ho]
  | cmp op l r ihl ihr =>
    obtain ⟨ho, hl, hr⟩ := he
    simp [gen, torchTables, hk "cmp" (by simp)]
    simp only [torchTables] at ihl ihr
    simp [ihl hl, ihr hr, Outcome.seq, lookup, hc op ho]
  | negate c ih =>
    simp [gen, torchTables, hk "negate" (by simp)]
    simp only [torchTables] at ih
    exact ih he
  | reduce op a ih =>
    obtain ⟨ho, ha⟩ := he
    simp [gen, torchTables, hk "reduce" (by simp)]
    simp only [torchTables] at ih
    simp [ih ha, lookup, (hrs op ho).1]
  | scan op a ih =>
    obtain ⟨ho, ha⟩ := he
    simp [gen, torchTables, hk "scan" (by simp)]
    simp only [torchTables] at ih
    simp [ih ha, lookup, (hrs op ho).2]

example : Emittable (.scan "|" (.binop "+" .var .literal)) := by
  simp [Emittable, compilerArith, compilerReduceScan]

example : gen numpyTables (.scan "|" .var) = .fallback ∧ gen torchTables (.scan "|" .var) = .code := by decide

end Klong.C08
