/-
  C17 — property theorems for the crash model of the key-value store's write path.
  Helper lemmas first, property theorems below the line.
-/
import Klong.Model.C17
namespace Klong.C17
open Klong.Wire

/-! ## association lists -/

theorem lookup_setKV_same {α : Type} (l : List (Path × α)) (k : Path) (x : α) :
    (setKV l k x).lookup k = some x := by
  simp [setKV, List.lookup]

theorem lookup_filter_ne {α : Type} (l : List (Path × α)) (f k : Path) (h : k ≠ f) :
    List.lookup k (l.filter (fun p => p.1 != f)) = List.lookup k l := by
  induction l with
  | nil => rfl
  | cons p l ih =>
    obtain ⟨a, b⟩ := p
    by_cases hp : a = f
    · subst hp
      simp [List.lookup, ih, beq_false_of_ne h]
    · by_cases hk : k = a
      · simp [List.filter_cons, hp, List.lookup, hk]
      · simp [List.filter_cons, hp, List.lookup, ih, beq_false_of_ne hk]

theorem lookup_setKV_other {α : Type} (l : List (Path × α)) (f k : Path) (x : α) (h : k ≠ f) :
    (setKV l f x).lookup k = l.lookup k := by
  simp [setKV, List.lookup, beq_false_of_ne h, lookup_filter_ne l f k h]

theorem mem_names_setKV {α : Type} (l : List (Path × α)) (f k : Path) (x : α) (h : k ≠ f) :
    k ∈ names (setKV l f x) ↔ k ∈ names l := by
  simp only [names, setKV, List.map_cons, List.mem_cons, List.mem_map, List.mem_filter]
  constructor
  · rintro (h1 | ⟨p, ⟨hp, _⟩, rfl⟩)
    · exact absurd h1 h
    · exact ⟨p, hp, rfl⟩
  · rintro ⟨p, hp, rfl⟩
    exact Or.inr ⟨p, ⟨hp, by simpa using h⟩, rfl⟩

theorem lookup_filter_key {α : Type} (l : List (Path × α)) (q : Path → Bool) (k : Path) :
    List.lookup k (l.filter (fun p => q p.1)) = if q k then List.lookup k l else none := by
  induction l with
  | nil => simp
  | cons p l ih =>
    obtain ⟨a, b⟩ := p
    by_cases hk : k = a
    · subst hk
      by_cases hq : q k = true
      · simp [List.filter_cons, hq, List.lookup]
      · simp [List.filter_cons, hq, ih]
    · by_cases hq : q a = true
      · simp [List.filter_cons, hq, List.lookup, beq_false_of_ne hk, ih]
      · simp [List.filter_cons, hq, List.lookup, beq_false_of_ne hk, ih]

theorem lookup_delKV_other {α : Type} (l : List (Path × α)) (f k : Path) (h : k ≠ f) :
    (delKV l f).lookup k = l.lookup k := lookup_filter_ne l f k h

theorem mem_names_delKV {α : Type} (l : List (Path × α)) (f k : Path) (h : k ≠ f) :
    k ∈ names (delKV l f) ↔ k ∈ names l := by
  simp only [names, delKV, List.mem_map, List.mem_filter]
  constructor
  · rintro ⟨p, ⟨hp, _⟩, rfl⟩; exact ⟨p, hp, rfl⟩
  · rintro ⟨p, hp, rfl⟩; exact ⟨p, ⟨hp, by simpa using h⟩, rfl⟩

theorem mem_names_setKV_self {α : Type} (l : List (Path × α)) (f : Path) (x : α) :
    f ∈ names (setKV l f x) := by
  simp [names, setKV]

/-! ## the stability predicate and its frame lemmas -/

/-- the durable view alone determines `k ↦ val`: no pending entry update, ancestors durable,
    contents synced -/
def Stable (fs : Fs) (k : Path) (val : Bytes) : Prop :=
  k ∈ names fs.vfiles ∧ fs.dcont.lookup k = some val ∧ fs.pendOf k = [] ∧
  fs.altOf k = [] ∧ ∀ a ∈ ancestors k, a ∈ fs.ddirs

/-- the path is durably absent -/
def Absent (fs : Fs) (k : Path) : Prop := k ∉ names fs.vfiles ∧ fs.altOf k = []

theorem stable_of_durableAs {fs : Fs} {k : Path} {val : Bytes} (h : durableAs fs k val = true) :
    Stable fs k val := by
  simp only [durableAs, Fs.isFile, Bool.and_eq_true, List.contains_eq_mem, decide_eq_true_eq,
    beq_iff_eq, List.isEmpty_iff, List.all_eq_true] at h
  obtain ⟨⟨⟨⟨h1, h2⟩, h3⟩, h4⟩, h5⟩ := h
  exact ⟨h1, h2, h3, h4, h5⟩

theorem absent_of_durablyAbsent {fs : Fs} {k : Path} (h : durablyAbsent fs k = true) : Absent fs k := by
  simp only [durablyAbsent, Fs.isFile, Bool.and_eq_true, Bool.not_eq_true', List.contains_eq_mem,
    decide_eq_false_iff_not, List.isEmpty_iff] at h
  exact h

/-- which paths an operation touches as files -/
def touches : Op → List Path
  | .creatTrunc f => [f]
  | .write f _ => [f]
  | .fsyncFile f => [f]
  | .rename a b => [a, b]
  | .unlink f => [f]
  | _ => []

theorem altOf_filter_parent (fs : Fs) (d k : Path) (h : fs.altOf k = []) :
    ((fs.alt.filter (fun p => parent p.1 != d)).lookup k).getD [] = [] := by
  rw [lookup_filter_key fs.alt (fun x => parent x != d) k]
  split
  · exact h
  · rfl

/-- an operation leaves the stability of every file it does not touch alone -/
theorem stable_step (v : Variant) (fs : Fs) (op : Op) (k : Path) (val : Bytes)
    (hk : k ∉ touches op) (h : Stable fs k val) : Stable (fs.step v op) k val := by
  obtain ⟨h1, h2, h3, h4, h5⟩ := h
  cases op with
  | begin _ _ => exact ⟨h1, h2, h3, h4, h5⟩
  | ret => exact ⟨h1, h2, h3, h4, h5⟩
  | mkdir d => exact ⟨h1, h2, h3, h4, h5⟩
  | close f => exact ⟨h1, h2, h3, h4, h5⟩
  | kill => exact ⟨h1, h2, h3, h4, h5⟩
  | creatTrunc f =>
    have hne : k ≠ f := by simpa [touches] using hk
    simp only [Fs.step]
    split
    · refine ⟨(mem_names_setKV _ _ _ _ hne).mpr h1, h2, ?_, h4, h5⟩
      simpa [Fs.pendOf, lookup_setKV_other _ _ _ _ hne] using h3
    · refine ⟨(mem_names_setKV _ _ _ _ hne).mpr h1, ?_, ?_, ?_, h5⟩
      · simpa [lookup_setKV_other _ _ _ _ hne] using h2
      · simpa [Fs.pendOf, lookup_setKV_other _ _ _ _ hne] using h3
      · simpa [Fs.altOf, lookup_setKV_other _ _ _ _ hne] using h4
  | write f d =>
    have hne : k ≠ f := by simpa [touches] using hk
    simp only [Fs.step]
    refine ⟨(mem_names_setKV _ _ _ _ hne).mpr h1, h2, ?_, h4, h5⟩
    simpa [Fs.pendOf, lookup_setKV_other _ _ _ _ hne] using h3
  | fsyncFile f =>
    have hne : k ≠ f := by simpa [touches] using hk
    have hd : (setKV fs.dcont f (fs.contOf f)).lookup k = some val := by
      rw [lookup_setKV_other _ _ _ _ hne]; exact h2
    have hp : ((setKV fs.pend f ([] : List Eff)).lookup k).getD [] = [] := by
      rw [lookup_setKV_other _ _ _ _ hne]; exact h3
    cases v with
    | strict => exact ⟨h1, hd, hp, h4, h5⟩
    | journalled =>
      refine ⟨h1, hd, hp, ?_, fun a ha => List.mem_append_right _ (h5 a ha)⟩
      simpa [Fs.step, Fs.altOf, lookup_delKV_other _ _ _ hne] using h4
  | fsyncDir d =>
    exact ⟨h1, h2, h3, altOf_filter_parent fs d k h4, fun a ha => List.mem_append_right _ (h5 a ha)⟩
  | rename a b =>
    have hne : k ≠ a ∧ k ≠ b := by simpa [touches] using hk
    simp only [Fs.step]
    refine ⟨?_, ?_, ?_, ?_, h5⟩
    · exact (mem_names_setKV _ _ _ _ hne.2).mpr ((mem_names_delKV _ _ _ hne.1).mpr h1)
    · rw [lookup_setKV_other _ _ _ _ hne.2, lookup_delKV_other _ _ _ hne.1]; exact h2
    · simp only [Fs.pendOf]
      rw [lookup_setKV_other _ _ _ _ hne.2, lookup_delKV_other _ _ _ hne.1]; exact h3
    · simp only [Fs.altOf]
      rw [lookup_setKV_other _ _ _ _ hne.2, lookup_setKV_other _ _ _ _ hne.1]; exact h4
  | unlink f =>
    have hne : k ≠ f := by simpa [touches] using hk
    simp only [Fs.step]
    refine ⟨(mem_names_delKV _ _ _ hne).mpr h1, ?_, ?_, ?_, h5⟩
    · rw [lookup_delKV_other _ _ _ hne]; exact h2
    · simp only [Fs.pendOf]; rw [lookup_delKV_other _ _ _ hne]; exact h3
    · simp only [Fs.altOf]; rw [lookup_setKV_other _ _ _ _ hne]; exact h4

/-- … and the durable absence of every path it does not touch -/
theorem absent_step (v : Variant) (fs : Fs) (op : Op) (k : Path)
    (hk : k ∉ touches op) (h : Absent fs k) : Absent (fs.step v op) k := by
  obtain ⟨h1, h2⟩ := h
  cases op with
  | begin _ _ => exact ⟨h1, h2⟩
  | ret => exact ⟨h1, h2⟩
  | mkdir d => exact ⟨h1, h2⟩
  | close f => exact ⟨h1, h2⟩
  | kill => exact ⟨h1, h2⟩
  | fsyncDir d => exact ⟨h1, altOf_filter_parent fs d k h2⟩
  | creatTrunc f =>
    have hne : k ≠ f := by simpa [touches] using hk
    simp only [Fs.step]
    split
    · exact ⟨fun hc => h1 ((mem_names_setKV _ _ _ _ hne).mp hc), h2⟩
    · refine ⟨fun hc => h1 ((mem_names_setKV _ _ _ _ hne).mp hc), ?_⟩
      simpa [Fs.altOf, lookup_setKV_other _ _ _ _ hne] using h2
  | write f d =>
    have hne : k ≠ f := by simpa [touches] using hk
    exact ⟨fun hc => h1 ((mem_names_setKV _ _ _ _ hne).mp hc), h2⟩
  | fsyncFile f =>
    have hne : k ≠ f := by simpa [touches] using hk
    cases v with
    | strict => exact ⟨h1, h2⟩
    | journalled =>
      refine ⟨h1, ?_⟩
      simpa [Fs.step, Fs.altOf, lookup_delKV_other _ _ _ hne] using h2
  | rename a b =>
    have hne : k ≠ a ∧ k ≠ b := by simpa [touches] using hk
    simp only [Fs.step]
    refine ⟨fun hc => h1 ((mem_names_delKV _ _ _ hne.1).mp ((mem_names_setKV _ _ _ _ hne.2).mp hc)), ?_⟩
    simp only [Fs.altOf]
    rw [lookup_setKV_other _ _ _ _ hne.2, lookup_setKV_other _ _ _ _ hne.1]; exact h2
  | unlink f =>
    have hne : k ≠ f := by simpa [touches] using hk
    simp only [Fs.step]
    refine ⟨fun hc => h1 ((mem_names_delKV _ _ _ hne).mp hc), ?_⟩
    simp only [Fs.altOf]; rw [lookup_setKV_other _ _ _ _ hne]; exact h2

/-! ## crash images -/

theorem fileChoices_stable {fs : Fs} {k : Path} {val : Bytes} (h : Stable fs k val) :
    fileChoices fs k = [some val] := by
  obtain ⟨h1, h2, h3, h4, _⟩ := h
  simp [fileChoices, Fs.isFile, h1, h2, h3, h4, contentChoices]

theorem fileChoices_absent {fs : Fs} {k : Path} (h : Absent fs k) : fileChoices fs k = [none] := by
  obtain ⟨h1, h2⟩ := h
  simp [fileChoices, Fs.isFile, h1, h2]

theorem crashFiles_absent (fs : Fs) (k : Path) (hc : fileChoices fs k = [none]) :
    ∀ (l : List Path), ∀ F ∈ crashFiles fs l, F.lookup k = none := by
  intro l
  induction l with
  | nil => intro F hF; simp [crashFiles] at hF; subst hF; rfl
  | cons f rest ih =>
    intro F hF
    simp only [crashFiles, List.mem_flatMap, List.mem_map] at hF
    obtain ⟨o, ho, r, hr, rfl⟩ := hF
    by_cases hkf : k = f
    · subst hkf
      rw [hc] at ho
      simp at ho
      subst ho
      exact ih r hr
    · cases o with
      | none => exact ih r hr
      | some b => simp [List.lookup, beq_false_of_ne hkf, ih r hr]

theorem crashFiles_stable (fs : Fs) (k : Path) (val : Bytes) (hc : fileChoices fs k = [some val]) :
    ∀ (l : List Path), k ∈ l → ∀ F ∈ crashFiles fs l, F.lookup k = some val := by
  intro l
  induction l with
  | nil => intro hk; cases hk
  | cons f rest ih =>
    intro hk F hF
    simp only [crashFiles, List.mem_flatMap, List.mem_map] at hF
    obtain ⟨o, ho, r, hr, rfl⟩ := hF
    by_cases hkf : k = f
    · subst hkf
      rw [hc] at ho
      simp at ho
      subst ho
      simp [List.lookup]
    · have hkr : k ∈ rest := by
        cases hk with
        | head => exact absurd rfl hkf
        | tail _ h => exact h
      cases o with
      | none => exact ih hkr r hr
      | some b => simp [List.lookup, beq_false_of_ne hkf, ih hkr r hr]

theorem dirChoices_keep (fs : Fs) : ∀ D ∈ dirChoices fs, ∀ d ∈ fs.ddirs, d ∈ D := by
  intro D hD d hd
  simp only [dirChoices, List.mem_map] at hD
  obtain ⟨x, _, rfl⟩ := hD
  exact List.mem_append_right _ hd

/-- a key whose mapping is stable reads its value on every crash image -/
theorem recover_stable {fs : Fs} {k : Path} {val : Bytes} (h : Stable fs k val) :
    ∀ c ∈ crash fs, recover c k = some val := by
  intro c hc
  simp only [crash, List.mem_flatMap, List.mem_map] at hc
  obtain ⟨D, hD, F, hF, rfl⟩ := hc
  have hanc : ((ancestors k).all fun a => D.contains a) = true := by
    simp only [List.all_eq_true, List.contains_eq_mem, decide_eq_true_eq]
    exact fun a ha => dirChoices_keep fs D hD a (h.2.2.2.2 a ha)
  simp only [recover, hanc, if_true]
  exact crashFiles_stable fs k val (fileChoices_stable h) _ (List.mem_append_left _ h.1) F hF

/-- a durably absent path reads as missing on every crash image -/
theorem recover_absent {fs : Fs} {k : Path} (h : Absent fs k) :
    ∀ c ∈ crash fs, recover c k = none := by
  intro c hc
  simp only [crash, List.mem_flatMap, List.mem_map] at hc
  obtain ⟨D, _, F, hF, rfl⟩ := hc
  simp only [recover]
  split
  · exact crashFiles_absent fs k (fileChoices_absent h) _ F hF
  · rfl

/-! ## the invariant -/

/-- every key other than the one being written (and other than the scratch files of the set in
    progress) is exactly where the completed sets left it; scratch paths hold no completed key -/
def Inv (s : St) : Prop :=
  (∀ k, curKey s ≠ some k → k ∉ s.scratch → k ∉ s.dirty →
    match s.done.lookup k with
    | some val => Stable s.fs k val
    | none => Absent s.fs k) ∧
  (∀ p ∈ s.scratch, s.done.lookup p = none)

theorem inv_init : Inv init := by
  refine ⟨fun k _ _ _ => ?_, fun p hp => by simp [init] at hp⟩
  simp [init, names, Absent, Fs.altOf]

theorem lookup_cons_ite {α : Type} (k a : Path) (b : α) (l : List (Path × α)) :
    List.lookup k ((a, b) :: l) = if k = a then some b else List.lookup k l := by
  by_cases h : k = a
  · simp [List.lookup, h]
  · simp [List.lookup, h, beq_false_of_ne h]

/-- frame step shared by all file-system operations -/
theorem inv_frame (v : Variant) (s : St) (op : Op) (hnb : ∀ k val, op ≠ .begin k val) (hnr : op ≠ .ret)
    (hnk : op ≠ .kill) (h : Inv s)
    (hscr : ∀ p ∈ scratchStep (curKey s) s.scratch op, p ∈ s.scratch ∨ s.done.lookup p = none)
    (htouch : ∀ k, curKey s ≠ some k → k ∉ scratchStep (curKey s) s.scratch op → k ∉ touches op ∧ k ∉ s.scratch) :
    Inv (step v s op) := by
  have hstep : step v s op = { s with fs := s.fs.step v op, scratch := scratchStep (curKey s) s.scratch op } := by
    cases op <;> first | rfl | exact absurd rfl (hnb _ _) | exact absurd rfl hnr | exact absurd rfl hnk
  rw [hstep]
  refine ⟨fun k hk hks hkd => ?_, fun p hp => ?_⟩
  · obtain ⟨ht, hs⟩ := htouch k hk hks
    have := h.1 k hk hs hkd
    simp only at this ⊢
    split at this
    · next val heq => exact stable_step v _ _ _ _ ht this
    · next heq => exact absent_step v _ _ _ ht this
  · rcases hscr p hp with h1 | h1
    · exact h.2 p h1
    · exact h1

theorem inv_step (v : Variant) (s : St) (op : Op) (hok : ok s op = true) (h : Inv s) :
    Inv (step v s op) := by
  cases op with
  | begin k0 val0 =>
    simp only [ok, Bool.and_eq_true, Option.isNone_iff_eq_none, List.isEmpty_iff] at hok
    have hcur : s.cur = none := hok.1.1.1.1.1
    have hscr : s.scratch = [] := hok.2
    refine ⟨fun k _ _ hkd => ?_, fun p hp => ?_⟩
    · have := h.1 k (by simp [curKey, hcur]) (by simp [hscr]) (by simpa [step] using hkd)
      simpa [step] using this
    · simp [step, hscr] at hp
  | ret =>
    cases hc : s.cur with
    | none => simp [ok, hc] at hok
    | some kv =>
      obtain ⟨k0, val0⟩ := kv
      simp only [ok, hc, Bool.and_eq_true, List.all_eq_true] at hok
      have hst : Stable s.fs k0 val0 := stable_of_durableAs hok.1.2
      refine ⟨fun k _ _ hkd => ?_, fun p hp => by simp [step, hc] at hp⟩
      simp only [step, hc, lookup_cons_ite]
      by_cases hk : k = k0
      · subst hk; simpa using hst
      · simp only [hk, if_false]
        by_cases hs : k ∈ s.scratch
        · rw [h.2 k hs]
          exact absent_of_durablyAbsent (hok.2 k hs)
        · have hkd' : k ∉ s.dirty := by
            intro hin
            apply hkd
            simp only [step, hc, List.mem_filter]
            exact ⟨hin, by simpa using hk⟩
          exact h.1 k (by simp [curKey, hc]; exact fun e => hk e.symm) hs hkd'
  | kill =>
    refine ⟨fun k _ _ hkd => ?_, fun p hp => by simp [step] at hp⟩
    have hkd' : k ∉ (curKey s).toList ++ s.scratch ++ s.dirty := by simpa [step] using hkd
    simp only [List.mem_append, not_or] at hkd'
    have hcur : curKey s ≠ some k := by
      intro e; exact hkd'.1.1 (by simp [e])
    have := h.1 k hcur hkd'.1.2 hkd'.2
    simp only [step] at this ⊢
    split at this
    · next val heq => exact stable_step v _ .kill _ _ (by simp [touches]) this
    · next heq => exact absent_step v _ .kill _ (by simp [touches]) this
  | mkdir d =>
    exact inv_frame v s _ (by simp) (by simp) (by simp) h (fun p hp => Or.inl hp)
      (fun k _ hks => ⟨by simp [touches], hks⟩)
  | close f =>
    exact inv_frame v s _ (by simp) (by simp) (by simp) h (fun p hp => Or.inl hp)
      (fun k _ hks => ⟨by simp [touches], hks⟩)
  | fsyncDir d =>
    exact inv_frame v s _ (by simp) (by simp) (by simp) h (fun p hp => Or.inl hp)
      (fun k _ hks => ⟨by simp [touches], hks⟩)
  | creatTrunc f =>
    simp only [ok, Bool.and_eq_true, Bool.or_eq_true, Option.isNone_iff_eq_none] at hok
    have hall := hok.1.1.1.2
    refine inv_frame v s _ (by simp) (by simp) (by simp) h ?_ ?_
    · intro p hp
      simp only [scratchStep] at hp
      split at hp
      · exact Or.inl hp
      · next hna =>
        rcases List.mem_cons.mp hp with rfl | hp'
        · rcases hall with ha | hd
          · exact absurd (by simpa [allowed] using ha) hna
          · exact Or.inr hd
        · exact Or.inl hp'
    · intro k hk hks
      simp only [scratchStep] at hks
      split at hks
      · next ha =>
        refine ⟨?_, hks⟩
        simp only [touches, List.mem_singleton]
        rintro rfl
        simp only [Bool.or_eq_true, beq_iff_eq, List.contains_eq_mem, decide_eq_true_eq] at ha
        rcases ha with ha | ha
        · exact hk ha
        · exact hks ha
      · refine ⟨?_, fun e => hks (List.mem_cons_of_mem _ e)⟩
        simp only [touches, List.mem_singleton]
        rintro rfl
        exact hks List.mem_cons_self
  | write f d =>
    simp only [ok, allowed, Bool.and_eq_true, Bool.or_eq_true, beq_iff_eq, List.contains_eq_mem,
      decide_eq_true_eq] at hok
    refine inv_frame v s _ (by simp) (by simp) (by simp) h (fun p hp => Or.inl hp) (fun k hk hks => ⟨?_, hks⟩)
    simp only [touches, List.mem_singleton]
    rintro rfl
    rcases hok.1 with ha | ha
    · exact hk ha
    · exact hks ha
  | fsyncFile f =>
    simp only [ok, allowed, Bool.and_eq_true, Bool.or_eq_true, beq_iff_eq, List.contains_eq_mem,
      decide_eq_true_eq] at hok
    refine inv_frame v s _ (by simp) (by simp) (by simp) h (fun p hp => Or.inl hp) (fun k hk hks => ⟨?_, hks⟩)
    simp only [touches, List.mem_singleton]
    rintro rfl
    rcases hok.1 with ha | ha
    · exact hk ha
    · exact hks ha
  | unlink f =>
    simp only [ok, allowed, Bool.and_eq_true, Bool.or_eq_true, beq_iff_eq, List.contains_eq_mem,
      decide_eq_true_eq] at hok
    refine inv_frame v s _ (by simp) (by simp) (by simp) h (fun p hp => Or.inl hp) (fun k hk hks => ⟨?_, hks⟩)
    simp only [touches, List.mem_singleton]
    rintro rfl
    rcases hok.1.1 with ha | ha
    · exact hk ha
    · exact hks ha
  | rename a b =>
    simp only [ok, allowed, Bool.and_eq_true, Bool.or_eq_true, beq_iff_eq, List.contains_eq_mem,
      decide_eq_true_eq] at hok
    have ha := hok.1.1.1.1.1.1.1
    have hb := hok.1.1.1.1.1.1.2
    refine inv_frame v s _ (by simp) (by simp) (by simp) h (fun p hp => Or.inl hp) (fun k hk hks => ⟨?_, hks⟩)
    simp only [touches, List.mem_cons, List.mem_singleton, List.not_mem_nil, or_false]
    rintro (rfl | rfl)
    · rcases ha with h1 | h1
      · exact hk h1
      · exact hks h1
    · rcases hb with h1 | h1
      · exact hk h1
      · exact hks h1

theorem inv_runWF (v : Variant) : ∀ (tr : List Op) (s s' : St),
    runWF v s tr = some s' → Inv s → Inv s' := by
  intro tr
  induction tr with
  | nil => intro s s' h hi; simp [runWF] at h; subst h; exact hi
  | cons op tr ih =>
    intro s s' h hi
    simp only [runWF] at h
    split at h
    · next hok => exact ih _ _ h (inv_step v s op hok hi)
    · cases h

theorem runWF_eq_run (v : Variant) : ∀ (tr : List Op) (s s' : St),
    runWF v s tr = some s' → s' = run v s tr := by
  intro tr
  induction tr with
  | nil => intro s s' h; simp [runWF] at h; simp [run, h]
  | cons op tr ih =>
    intro s s' h
    simp only [runWF] at h
    split at h
    · simpa [run] using ih _ _ h
    · cases h

/-- along a well-formed run, scratch paths exist only while a set is in progress -/
theorem scratch_nil_of_idle (v : Variant) : ∀ (tr : List Op) (s s' : St),
    runWF v s tr = some s' → (s.cur = none → s.scratch = []) → s'.cur = none → s'.scratch = [] := by
  intro tr
  induction tr with
  | nil => intro s s' h hi hc; simp [runWF] at h; subst h; exact hi hc
  | cons op tr ih =>
    intro s s' h hi hc
    simp only [runWF] at h
    split at h
    · next hok =>
      refine ih _ _ h ?_ hc
      intro hc1
      cases op with
      | begin k val => simp [step] at hc1
      | ret => cases hcs : s.cur <;> simp [step, hcs]
      | mkdir d =>
        have : s.cur = none := by simpa [step] using hc1
        simpa [step, scratchStep] using hi this
      | kill => simp [step]
      | creatTrunc f =>
        have : s.cur = none := by simpa [step] using hc1
        simp [ok, this] at hok
      | fsyncDir d =>
        have : s.cur = none := by simpa [step] using hc1
        simpa [step, scratchStep] using hi this
      | write f d =>
        have hn : s.cur = none := by simpa [step] using hc1
        have := hi hn
        simp [ok, allowed, curKey, hn, this] at hok
      | fsyncFile f =>
        have hn : s.cur = none := by simpa [step] using hc1
        have := hi hn
        simp [ok, allowed, curKey, hn, this] at hok
      | close f =>
        have hn : s.cur = none := by simpa [step] using hc1
        have := hi hn
        simp [ok, allowed, curKey, hn, this] at hok
      | unlink f =>
        have hn : s.cur = none := by simpa [step] using hc1
        have := hi hn
        simp [ok, allowed, curKey, hn, this] at hok
      | rename a b =>
        have hn : s.cur = none := by simpa [step] using hc1
        have := hi hn
        simp [ok, allowed, curKey, hn, this] at hok
    · cases h

/-- well-formedness is prefix closed -/
theorem runWF_append (v : Variant) : ∀ (pre suf : List Op) (s : St),
    (runWF v s (pre ++ suf)).isSome = true → (runWF v s pre).isSome = true := by
  intro pre
  induction pre with
  | nil => intro _ _ _; rfl
  | cons op pre ih =>
    intro suf s h
    simp only [List.cons_append, runWF] at h ⊢
    split
    · next hok => rw [if_pos hok] at h; exact ih suf _ h
    · next hok => rw [if_neg hok] at h; cases h

theorem WF_prefix (v : Variant) (pre suf : List Op) (h : WF v (pre ++ suf) = true) :
    WF v pre = true := runWF_append v pre suf init h

/-- the machine's ghost fields are the begin/ret/creat bookkeeping of the trace, nothing else -/
theorem ghostStep_step (v : Variant) (s : St) (op : Op) :
    ghostStep ⟨s.cur, s.done, s.scratch, s.dirty⟩ op =
      ⟨(step v s op).cur, (step v s op).done, (step v s op).scratch, (step v s op).dirty⟩ := by
  cases op <;> first
    | rfl
    | (cases hc : s.cur <;> simp [ghostStep, step, hc])

theorem ghost_run (v : Variant) : ∀ (tr : List Op) (s : St),
    ghost ⟨s.cur, s.done, s.scratch, s.dirty⟩ tr =
      ⟨(run v s tr).cur, (run v s tr).done, (run v s tr).scratch, (run v s tr).dirty⟩ := by
  intro tr
  induction tr with
  | nil => intro s; rfl
  | cons op tr ih =>
    intro s
    simp only [ghost, run, List.foldl_cons] at ih ⊢
    rw [ghostStep_step v s op]
    exact ih (step v s op)

/-! ------------------------------------------------------------------------------------------
  ## Property theorems
------------------------------------------------------------------------------------------ -/

/-- crash images after a prefix of the trace -/
def crashAfter (v : Variant) (pre : List Op) : List Image := crash (run v init pre).fs

/-- **C17, core form.**  For every well-formed trace (any number of sets, any keys and values),
    every prefix of it (= every crash instant), every crash image of that prefix under either
    persistence variant, and every key other than the one whose set is in progress (and other
    than a scratch file that set has created — none for the in-place write path): a fresh store
    reads exactly the last completed value of the key, or "missing" (`:undefined`, never a
    failure) if no set of it has completed. -/
theorem crash_safety_core (v : Variant) (tr pre suf : List Op) (htr : tr = pre ++ suf)
    (hwf : WF v tr = true) :
    ∀ c ∈ crashAfter v pre, ∀ k, inProgress pre ≠ some k → k ∉ scratchOf pre → k ∉ dirtyOf pre →
      recover c k = lastCompleted pre k := by
  subst htr
  have hpre : (runWF v init pre).isSome = true := WF_prefix v pre suf hwf
  obtain ⟨s, hs⟩ := Option.isSome_iff_exists.mp hpre
  have hrun : s = run v init pre := runWF_eq_run v pre init s hs
  have hinv : Inv s := inv_runWF v pre init s hs inv_init
  have hg : ghost {} pre = ⟨s.cur, s.done, s.scratch, s.dirty⟩ := by
    rw [hrun]; exact ghost_run v pre init
  intro c hc k hk hks hkd
  simp only [crashAfter, ← hrun] at hc
  have hcur : curKey s ≠ some k := by
    simpa [inProgress, curKey, hg] using hk
  have hscr : k ∉ s.scratch := by
    simpa [scratchOf, hg] using hks
  have hdirty : k ∉ s.dirty := by
    simpa [dirtyOf, hg] using hkd
  have hdone : lastCompleted pre k = s.done.lookup k := by
    simp [lastCompleted, hg]
  rw [hdone]
  have := hinv.1 k hcur hscr hdirty
  split at this
  · next val heq => rw [heq]; exact recover_stable this c hc
  · next heq => rw [heq]; exact recover_absent this c hc

/-- **C17 as stated.**  (1) a completed set survives every crash: any key with a completed set,
    not currently being rewritten, reads its last completed value on every crash image of every
    later instant; (2) an interrupted set harms no other key: every key other than the one in
    progress reads what it read before the set started — its last completed value, or missing —
    and the read never fails.  (`k ∉ dirtyOf pre`: histories may chain a process kill and a later
    power loss; the key of a set that a kill interrupted is unspecified until a set of it completes.)  (`k ∉ scratchOf pre`: the set in progress may own temp files; a
    well-formed set has removed them durably by the time it returns.) -/
theorem crash_safety (v : Variant) (tr : List Op) (hwf : WF v tr = true)
    (pre suf : List Op) (htr : tr = pre ++ suf) (c : Image) (hc : c ∈ crashAfter v pre) :
    (∀ k val, lastCompleted pre k = some val → inProgress pre ≠ some k → k ∉ scratchOf pre →
      k ∉ dirtyOf pre → recover c k = some val) ∧
    (∀ k, inProgress pre ≠ some k → k ∉ scratchOf pre → k ∉ dirtyOf pre → lastCompleted pre k = none →
      recover c k = none) := by
  constructor
  · intro k val h1 h2 h3 h4
    rw [crash_safety_core v tr pre suf htr hwf c hc k h2 h3 h4, h1]
  · intro k h2 h3 h4 h1
    rw [crash_safety_core v tr pre suf htr hwf c hc k h2 h3 h4, h1]

/-- between sets there are no scratch paths -/
theorem scratchOf_idle (v : Variant) (pre suf : List Op) (hwf : WF v (pre ++ suf) = true)
    (hidle : inProgress pre = none) : scratchOf pre = [] := by
  have hpre : (runWF v init pre).isSome = true := WF_prefix v pre suf hwf
  obtain ⟨s, hs⟩ := Option.isSome_iff_exists.mp hpre
  have hrun : s = run v init pre := runWF_eq_run v pre init s hs
  have hg : ghost {} pre = ⟨s.cur, s.done, s.scratch, s.dirty⟩ := by
    rw [hrun]; exact ghost_run v pre init
  have hcur : s.cur = none := by simpa [inProgress, hg] using hidle
  simp only [scratchOf, hg]
  -- `cur = none` is reached only by `ret` (which clears scratch) or initially
  exact scratch_nil_of_idle v pre init s hs (fun _ => rfl) hcur

/-- once a set has returned (the trace up to and including its `ret`), its value is what every
    crash image reads until another set of the same key begins -/
theorem completed_set_is_durable (v : Variant) (tr : List Op) (hwf : WF v tr = true)
    (pre suf : List Op) (htr : tr = pre ++ suf) (k : Path) (val : Bytes)
    (hdone : lastCompleted pre k = some val) (hidle : inProgress pre = none) (hclean : k ∉ dirtyOf pre) :
    ∀ c ∈ crashAfter v pre, recover c k = some val := by
  intro c hc
  subst htr
  exact (crash_safety v _ hwf pre suf rfl c hc).1 k val hdone (by simp [hidle])
    (by simp [scratchOf_idle v pre suf hwf hidle]) hclean

/-! ### non-vacuity and witnesses -/

/-- two sets of a nested key and a set of a flat key with the repaired `_write_file` skeleton -/
def demoSets : List (Path × Bytes) := [([1, 2], [10, 11, 12]), ([3], [20]), ([1, 2], [30, 31])]

def demoFixed : List Op := traceOf .strict skFixed true 16 init demoSets
def demoPinned : List Op := traceOf .strict skPinned true 16 init demoSets
/-- pinned skeleton with a buffer smaller than the value (the write reaches the kernel first) -/
def demoPinnedDirect : List Op := traceOf .strict skPinned true 2 init demoSets

/-- the repaired write path is well-formed under the strict variant (hypothesis of
    `crash_safety` is satisfiable by a non-trivial trace: 3 sets, nested key, overwrite) -/
example : WF .strict demoFixed = true := by decide
example : demoFixed.length = 22 := by decide

/-- and the theorem's conclusion on a concrete crash instant: in the middle of the third set
    (an overwrite of key 1/2) key 3 reads its value on all crash images -/
example : ∀ c ∈ crashAfter .strict (demoFixed.take 18), recover c [3] = some [20] := by decide

/-- the property allows the key being written to lose its OLD value (open('wb') truncates in
    place): there is a crash image of the interrupted overwrite on which 1/2 reads neither the old
    nor the new value -/
theorem overwrite_can_lose_old_value_of_same_key :
    ∃ c ∈ crashAfter .strict (demoFixed.take 18), recover c [1, 2] = some [] := by decide

/-- pinned tree, defect 1 (both variants): the value sits in the BufferedWriter when fsync runs,
    so the trace is fsync-then-write; not well-formed, and after the set has returned there is a
    crash image on which the completed key reads an empty file -/
theorem pinned_small_value_not_durable :
    WF .journalled (demoPinned.take 7) = false ∧
    inProgress (demoPinned.take 7) = none ∧
    lastCompleted (demoPinned.take 7) [1, 2] = some [10, 11, 12] ∧
    ∃ c ∈ crashAfter .journalled (demoPinned.take 7), recover c [1, 2] = some [] := by decide

/-- pinned tree, defect 2 (strict variant only; shown with a value larger than the buffer so that
    defect 1 does not interfere): no directory fsync — after the set has returned a crash can lose
    the new key altogether -/
theorem pinned_new_key_can_vanish_strict :
    WF .strict (demoPinnedDirect.take 7) = false ∧
    WF .journalled (demoPinnedDirect.take 7) = true ∧
    lastCompleted (demoPinnedDirect.take 7) [1, 2] = some [10, 11, 12] ∧
    ∃ c ∈ crashAfter .strict (demoPinnedDirect.take 7), recover c [1, 2] = none := by decide

/-! ### rename (the write-temp-then-replace idiom) -/

/-- key `1` written through temp file `9`: first set creates the key (directory synced after the
    rename), second set overwrites it WITHOUT syncing the directory after the rename -/
def demoRenameBad : List Op :=
  [.begin [1] [10], .creatTrunc [9], .write [9] [10], .fsyncFile [9], .close [9], .rename [9] [1],
   .fsyncDir [], .ret,
   .begin [1] [20], .creatTrunc [9], .write [9] [20], .fsyncFile [9], .close [9], .rename [9] [1], .ret]

/-- the same with the directory synced after every rename -/
def demoRenameGood : List Op :=
  [.begin [1] [10], .creatTrunc [9], .write [9] [10], .fsyncFile [9], .close [9], .rename [9] [1],
   .fsyncDir [], .ret,
   .begin [1] [20], .creatTrunc [9], .write [9] [20], .fsyncFile [9], .close [9], .rename [9] [1],
   .fsyncDir [], .ret]

/-- write-temp + fsync + rename WITHOUT the directory fsync loses a completed overwrite: the set
    has returned, the trace is not well-formed (under either variant), and there is a crash image
    on which the key reads its PREVIOUS value -/
theorem rename_without_dir_fsync_loses_completed_overwrite :
    WF .strict demoRenameBad = false ∧ WF .journalled demoRenameBad = false ∧
    WF .strict (demoRenameBad.take 8) = true ∧
    inProgress demoRenameBad = none ∧ lastCompleted demoRenameBad [1] = some [20] ∧
    ∃ c ∈ crashAfter .strict demoRenameBad, recover c [1] = some [10] := by decide

/-- with the directory fsync the idiom is well-formed (the model and `WF` accept traces with
    rename), the temp file is a scratch path while the set runs, and at every instant of the
    overwrite the key reads the old or the new value — never a torn one -/
theorem rename_with_dir_fsync_wf :
    WF .strict demoRenameGood = true ∧ scratchOf (demoRenameGood.take 12) = [[9]] ∧
    scratchOf demoRenameGood = [] ∧
    (∀ n ∈ List.range 9, ∀ c ∈ crashAfter .strict (demoRenameGood.take (8 + n)),
      recover c [1] = some [10] ∨ recover c [1] = some [20]) ∧
    ∀ c ∈ crashAfter .strict demoRenameGood, recover c [1] = some [20] := by decide

/-! ### histories that chain a process kill and a later power loss -/

/-- key `1` is set to `[10]`; a second set (to `[20]`) is killed between the write and the fsync;
    a new process then "sets" `[20]` again WITHOUT touching the file system (it found the bytes in
    its cache) and returns -/
def demoKillBad : List Op :=
  [.begin [1] [10], .creatTrunc [1], .write [1] [10], .fsyncFile [1], .close [1], .fsyncDir [], .ret,
   .begin [1] [20], .creatTrunc [1], .write [1] [20], .kill,
   .begin [1] [20], .ret]

/-- the same history with the second process rewriting and syncing the file -/
def demoKillGood : List Op :=
  [.begin [1] [10], .creatTrunc [1], .write [1] [10], .fsyncFile [1], .close [1], .fsyncDir [], .ret,
   .begin [1] [20], .creatTrunc [1], .write [1] [20], .kill,
   .begin [1] [20], .creatTrunc [1], .write [1] [20], .fsyncFile [1], .close [1], .ret]

/-- a set that returns on the strength of unsynced bytes left by a killed writer is not
    well-formed, and a later power loss makes the completed key read its previous value -/
theorem set_skipped_after_kill_is_not_durable :
    WF .strict demoKillBad = false ∧ WF .journalled demoKillBad = false ∧
    WF .strict (demoKillBad.take 12) = true ∧
    inProgress demoKillBad = none ∧ dirtyOf demoKillBad = [] ∧ lastCompleted demoKillBad [1] = some [20] ∧
    ∃ c ∈ crashAfter .strict demoKillBad, recover c [1] = some [10] := by decide

/-- after the kill the interrupted key is `dirty` (unspecified) until a set of it completes; the
    rewriting history is well-formed and ends with the key durable -/
theorem kill_then_rewrite_wf :
    WF .strict demoKillGood = true ∧ dirtyOf (demoKillGood.take 11) = [[1]] ∧ dirtyOf demoKillGood = [] ∧
    ∀ c ∈ crashAfter .strict demoKillGood, recover c [1] = some [20] := by decide

/-- a store opened on a fresh path: the root chain `7/8` is created when the store is opened and
    never synced (only the key's own directory is) — the set returns, the trace is not well-formed,
    and a crash loses the whole store -/
theorem eager_root_without_fsync_loses_store :
    WF .strict [.mkdir [7], .mkdir [7, 8], .begin [7, 8, 1] [10], .creatTrunc [7, 8, 1], .write [7, 8, 1] [10],
                .fsyncFile [7, 8, 1], .close [7, 8, 1], .fsyncDir [7, 8], .ret] = false ∧
    (∃ c ∈ crashAfter .strict [.mkdir [7], .mkdir [7, 8], .begin [7, 8, 1] [10], .creatTrunc [7, 8, 1],
                .write [7, 8, 1] [10], .fsyncFile [7, 8, 1], .close [7, 8, 1], .fsyncDir [7, 8], .ret],
        recover c [7, 8, 1] = none) ∧
    WF .strict [.mkdir [7], .mkdir [7, 8], .begin [7, 8, 1] [10], .creatTrunc [7, 8, 1], .write [7, 8, 1] [10],
                .fsyncFile [7, 8, 1], .close [7, 8, 1], .fsyncDir [7, 8], .fsyncDir [7], .fsyncDir [], .ret] = true := by
  decide

end Klong.C17
