/-
  C17 — property theorems for the crash model of the key-value store's write path.
  Helper lemmas first, property theorems below the line.
-/
import Klong.Model.C17
namespace Klong.C17
open Klong.Wire

/-! ## association lists -/

theorem lookup_setKV_same {α : Type} (l : List (Path × α)) (k : Path) (x : α) :
    (setKV l k x).lookup k = some x := by
  simp [setKV, List.lookup]

theorem lookup_filter_ne {α : Type} (l : List (Path × α)) (f k : Path) (h : k ≠ f) :
    List.lookup k (l.filter (fun p => p.1 != f)) = List.lookup k l := by
  induction l with
  | nil => rfl
  | cons p l ih =>
    obtain ⟨a, b⟩ := p
    by_cases hp : a = f
    · subst hp
      simp [List.lookup, ih, beq_false_of_ne h]
    · by_cases hk : k = a
      · simp [List.filter_cons, hp, List.lookup, hk]
      · simp [List.filter_cons, hp, List.lookup, ih, beq_false_of_ne hk]

theorem lookup_setKV_other {α : Type} (l : List (Path × α)) (f k : Path) (x : α) (h : k ≠ f) :
    (setKV l f x).lookup k = l.lookup k := by
  simp [setKV, List.lookup, beq_false_of_ne h, lookup_filter_ne l f k h]

theorem mem_names_setKV {α : Type} (l : List (Path × α)) (f k : Path) (x : α) (h : k ≠ f) :
    k ∈ names (setKV l f x) ↔ k ∈ names l := by
  simp only [names, setKV, List.map_cons, List.mem_cons, List.mem_map, List.mem_filter]
  constructor
  · rintro (h1 | ⟨p, ⟨hp, _⟩, rfl⟩)
    · exact absurd h1 h
    · exact ⟨p, hp, rfl⟩
  · rintro ⟨p, hp, rfl⟩
    exact Or.inr ⟨p, ⟨hp, by simpa using h⟩, rfl⟩

theorem mem_names_setKV_self {α : Type} (l : List (Path × α)) (f : Path) (x : α) :
    f ∈ names (setKV l f x) := by
  simp [names, setKV]

/-! ## the stability predicate and its frame lemmas -/

/-- the durable view alone determines `k ↦ val`: entry and ancestors durable, contents synced -/
def Stable (fs : Fs) (k : Path) (val : Bytes) : Prop :=
  k ∈ names fs.vfiles ∧ fs.dcont.lookup k = some val ∧ fs.pendOf k = [] ∧
  k ∈ fs.dents ∧ ∀ a ∈ ancestors k, a ∈ fs.ddirs

theorem stable_of_durableAs {fs : Fs} {k : Path} {val : Bytes} (h : durableAs fs k val = true) :
    Stable fs k val := by
  simp only [durableAs, Fs.isFile, Bool.and_eq_true, List.contains_eq_mem, decide_eq_true_eq,
    beq_iff_eq, List.isEmpty_iff, List.all_eq_true] at h
  obtain ⟨⟨⟨⟨h1, h2⟩, h3⟩, h4⟩, h5⟩ := h
  exact ⟨h1, h2, h3, h4, h5⟩

/-- an operation on file `f` (or on directories) leaves every other file's stability alone -/
theorem stable_step (v : Variant) (fs : Fs) (op : Op) (k : Path) (val : Bytes)
    (hk : ∀ f, (op = .creatTrunc f ∨ (∃ d, op = .write f d) ∨ op = .fsyncFile f) → k ≠ f)
    (h : Stable fs k val) : Stable (fs.step v op) k val := by
  obtain ⟨h1, h2, h3, h4, h5⟩ := h
  cases op with
  | begin _ _ => exact ⟨h1, h2, h3, h4, h5⟩
  | ret => exact ⟨h1, h2, h3, h4, h5⟩
  | mkdir d => exact ⟨h1, h2, h3, h4, h5⟩
  | close f => exact ⟨h1, h2, h3, h4, h5⟩
  | creatTrunc f =>
    have hne : k ≠ f := hk f (Or.inl rfl)
    simp only [Fs.step]
    split
    · refine ⟨(mem_names_setKV _ _ _ _ hne).mpr h1, h2, ?_, h4, h5⟩
      simpa [Fs.pendOf, lookup_setKV_other _ _ _ _ hne] using h3
    · refine ⟨(mem_names_setKV _ _ _ _ hne).mpr h1, ?_, ?_, h4, h5⟩
      · simpa [lookup_setKV_other _ _ _ _ hne] using h2
      · simpa [Fs.pendOf, lookup_setKV_other _ _ _ _ hne] using h3
  | write f d =>
    have hne : k ≠ f := hk f (Or.inr (Or.inl ⟨d, rfl⟩))
    simp only [Fs.step]
    refine ⟨(mem_names_setKV _ _ _ _ hne).mpr h1, h2, ?_, h4, h5⟩
    simpa [Fs.pendOf, lookup_setKV_other _ _ _ _ hne] using h3
  | fsyncFile f =>
    have hne : k ≠ f := hk f (Or.inr (Or.inr rfl))
    have hd : (setKV fs.dcont f (fs.contOf f)).lookup k = some val := by
      rw [lookup_setKV_other _ _ _ _ hne]; exact h2
    have hp : ((setKV fs.pend f ([] : List Eff)).lookup k).getD [] = [] := by
      rw [lookup_setKV_other _ _ _ _ hne]; exact h3
    cases v with
    | strict => exact ⟨h1, hd, hp, h4, h5⟩
    | journalled =>
      exact ⟨h1, hd, hp, List.mem_cons_of_mem _ h4, fun a ha => List.mem_append_right _ (h5 a ha)⟩
  | fsyncDir d =>
    exact ⟨h1, h2, h3, List.mem_append_right _ h4, fun a ha => List.mem_append_right _ (h5 a ha)⟩

/-- only `creatTrunc f` / `write f` add a file name, and only `f` -/
theorem absent_step (v : Variant) (fs : Fs) (op : Op) (k : Path)
    (hk : ∀ f, (op = .creatTrunc f ∨ (∃ d, op = .write f d) ∨ op = .fsyncFile f) → k ≠ f)
    (h : k ∉ names fs.vfiles) : k ∉ names (fs.step v op).vfiles := by
  cases op with
  | begin _ _ => exact h
  | ret => exact h
  | mkdir d => exact h
  | close f => exact h
  | fsyncDir d => exact h
  | creatTrunc f =>
    have hne : k ≠ f := hk f (Or.inl rfl)
    simp only [Fs.step]
    split <;> exact fun hc => h ((mem_names_setKV _ _ _ _ hne).mp hc)
  | write f d =>
    have hne : k ≠ f := hk f (Or.inr (Or.inl ⟨d, rfl⟩))
    exact fun hc => h ((mem_names_setKV _ _ _ _ hne).mp hc)
  | fsyncFile f =>
    cases v <;> exact h

/-! ## crash images -/

theorem fileChoices_stable {fs : Fs} {k : Path} {val : Bytes} (h : Stable fs k val) :
    fileChoices fs k = [some val] := by
  obtain ⟨_, h2, h3, h4, _⟩ := h
  simp [fileChoices, h2, h3, h4, contentChoices]

theorem crashFiles_absent (fs : Fs) (k : Path) :
    ∀ (l : List Path), k ∉ l → ∀ F ∈ crashFiles fs l, F.lookup k = none := by
  intro l
  induction l with
  | nil => intro _ F hF; simp [crashFiles] at hF; subst hF; rfl
  | cons f rest ih =>
    intro hk F hF
    simp only [crashFiles, List.mem_flatMap, List.mem_map] at hF
    obtain ⟨o, _, r, hr, rfl⟩ := hF
    have hkf : k ≠ f := fun e => hk (e ▸ List.mem_cons_self)
    have hkr : k ∉ rest := fun e => hk (List.mem_cons_of_mem _ e)
    cases o with
    | none => exact ih hkr r hr
    | some b => simp [List.lookup, beq_false_of_ne hkf, ih hkr r hr]

theorem crashFiles_stable (fs : Fs) (k : Path) (val : Bytes) (hc : fileChoices fs k = [some val]) :
    ∀ (l : List Path), k ∈ l → ∀ F ∈ crashFiles fs l, F.lookup k = some val := by
  intro l
  induction l with
  | nil => intro hk; cases hk
  | cons f rest ih =>
    intro hk F hF
    simp only [crashFiles, List.mem_flatMap, List.mem_map] at hF
    obtain ⟨o, ho, r, hr, rfl⟩ := hF
    by_cases hkf : k = f
    · subst hkf
      rw [hc] at ho
      simp at ho
      subst ho
      simp [List.lookup]
    · have hkr : k ∈ rest := by
        cases hk with
        | head => exact absurd rfl hkf
        | tail _ h => exact h
      cases o with
      | none => exact ih hkr r hr
      | some b => simp [List.lookup, beq_false_of_ne hkf, ih hkr r hr]

theorem dirChoices_keep (fs : Fs) : ∀ D ∈ dirChoices fs, ∀ d ∈ fs.ddirs, d ∈ D := by
  intro D hD d hd
  simp only [dirChoices, List.mem_map] at hD
  obtain ⟨x, _, rfl⟩ := hD
  exact List.mem_append_right _ hd

/-- a key whose mapping is stable reads its value on every crash image -/
theorem recover_stable {fs : Fs} {k : Path} {val : Bytes} (h : Stable fs k val) :
    ∀ c ∈ crash fs, recover c k = some val := by
  intro c hc
  simp only [crash, List.mem_flatMap, List.mem_map] at hc
  obtain ⟨D, hD, F, hF, rfl⟩ := hc
  have hanc : ((ancestors k).all fun a => D.contains a) = true := by
    simp only [List.all_eq_true, List.contains_eq_mem, decide_eq_true_eq]
    exact fun a ha => dirChoices_keep fs D hD a (h.2.2.2.2 a ha)
  simp only [recover, hanc, if_true]
  exact crashFiles_stable fs k val (fileChoices_stable h) _ h.1 F hF

/-- a key that has no file reads as missing on every crash image -/
theorem recover_absent {fs : Fs} {k : Path} (h : k ∉ names fs.vfiles) :
    ∀ c ∈ crash fs, recover c k = none := by
  intro c hc
  simp only [crash, List.mem_flatMap, List.mem_map] at hc
  obtain ⟨D, _, F, hF, rfl⟩ := hc
  simp only [recover]
  split
  · exact crashFiles_absent fs k _ h F hF
  · rfl

/-! ## the invariant -/

/-- every key other than the one being written is exactly where the completed sets left it -/
def Inv (s : St) : Prop :=
  ∀ k, curKey s ≠ some k →
    match s.done.lookup k with
    | some val => Stable s.fs k val
    | none => k ∉ names s.fs.vfiles

theorem inv_init : Inv init := by
  intro k _
  simp [init, names]

theorem lookup_cons_ite {α : Type} (k a : Path) (b : α) (l : List (Path × α)) :
    List.lookup k ((a, b) :: l) = if k = a then some b else List.lookup k l := by
  by_cases h : k = a
  · simp [List.lookup, h]
  · simp [List.lookup, h, beq_false_of_ne h]

theorem inv_step (v : Variant) (s : St) (op : Op) (hok : ok s op = true) (h : Inv s) :
    Inv (step v s op) := by
  cases op with
  | begin k0 val0 =>
    -- nothing was in progress, so the invariant held for every key
    simp only [ok, Bool.and_eq_true, Option.isNone_iff_eq_none] at hok
    have hcur : s.cur = none := hok.1.1.1.1
    intro k _
    have := h k (by simp [curKey, hcur])
    simpa [step] using this
  | ret =>
    cases hc : s.cur with
    | none => simp [ok, hc] at hok
    | some kv =>
      obtain ⟨k0, val0⟩ := kv
      simp only [ok, hc, Bool.and_eq_true] at hok
      have hst : Stable s.fs k0 val0 := stable_of_durableAs hok.2
      intro k _
      simp only [step, hc, lookup_cons_ite]
      by_cases hk : k = k0
      · subst hk; simpa using hst
      · have := h k (by simp [curKey, hc]; exact fun e => hk e.symm)
        simpa [hk] using this
  | mkdir d =>
    intro k hk
    have := h k hk
    simp only [step] at this ⊢
    split at this
    · next val heq => exact stable_step v _ _ _ _ (by simp) this
    · next heq => exact absent_step v _ _ _ (by simp) this
  | close f =>
    intro k hk
    have := h k hk
    simp only [step] at this ⊢
    split at this
    · next val heq => exact stable_step v _ _ _ _ (by simp) this
    · next heq => exact absent_step v _ _ _ (by simp) this
  | fsyncDir d =>
    intro k hk
    have := h k hk
    simp only [step] at this ⊢
    split at this
    · next val heq => exact stable_step v _ _ _ _ (by simp) this
    · next heq => exact absent_step v _ _ _ (by simp) this
  | creatTrunc f =>
    simp only [ok, Bool.and_eq_true, beq_iff_eq] at hok
    have hcf : curKey s = some f := hok.1.1.1
    intro k hk
    have hkf : k ≠ f := fun e => hk (by simpa [step, curKey, e] using hcf)
    have := h k (by simpa [step, curKey] using hk)
    simp only [step] at this ⊢
    split at this
    · next val heq => exact stable_step v _ _ _ _ (by simpa using hkf) this
    · next heq => exact absent_step v _ _ _ (by simpa using hkf) this
  | write f d =>
    simp only [ok, Bool.and_eq_true, beq_iff_eq] at hok
    have hcf : curKey s = some f := hok.1
    intro k hk
    have hkf : k ≠ f := fun e => hk (by simpa [step, curKey, e] using hcf)
    have := h k (by simpa [step, curKey] using hk)
    simp only [step] at this ⊢
    split at this
    · next val heq => exact stable_step v _ _ _ _ (by simpa using hkf) this
    · next heq => exact absent_step v _ _ _ (by simpa using hkf) this
  | fsyncFile f =>
    simp only [ok, Bool.and_eq_true, beq_iff_eq] at hok
    have hcf : curKey s = some f := hok.1
    intro k hk
    have hkf : k ≠ f := fun e => hk (by simpa [step, curKey, e] using hcf)
    have := h k (by simpa [step, curKey] using hk)
    simp only [step] at this ⊢
    split at this
    · next val heq => exact stable_step v _ _ _ _ (by simpa using hkf) this
    · next heq => exact absent_step v _ _ _ (by simpa using hkf) this

theorem inv_runWF (v : Variant) : ∀ (tr : List Op) (s s' : St),
    runWF v s tr = some s' → Inv s → Inv s' := by
  intro tr
  induction tr with
  | nil => intro s s' h hi; simp [runWF] at h; subst h; exact hi
  | cons op tr ih =>
    intro s s' h hi
    simp only [runWF] at h
    split at h
    · next hok => exact ih _ _ h (inv_step v s op hok hi)
    · cases h

theorem runWF_eq_run (v : Variant) : ∀ (tr : List Op) (s s' : St),
    runWF v s tr = some s' → s' = run v s tr := by
  intro tr
  induction tr with
  | nil => intro s s' h; simp [runWF] at h; simp [run, h]
  | cons op tr ih =>
    intro s s' h
    simp only [runWF] at h
    split at h
    · simpa [run] using ih _ _ h
    · cases h

/-- well-formedness is prefix closed -/
theorem runWF_append (v : Variant) : ∀ (pre suf : List Op) (s : St),
    (runWF v s (pre ++ suf)).isSome = true → (runWF v s pre).isSome = true := by
  intro pre
  induction pre with
  | nil => intro _ _ _; rfl
  | cons op pre ih =>
    intro suf s h
    simp only [List.cons_append, runWF] at h ⊢
    split
    · next hok => rw [if_pos hok] at h; exact ih suf _ h
    · next hok => rw [if_neg hok] at h; cases h

theorem WF_prefix (v : Variant) (pre suf : List Op) (h : WF v (pre ++ suf) = true) :
    WF v pre = true := runWF_append v pre suf init h

/-- the machine's ghost fields are the begin/ret bookkeeping of the trace, nothing else -/
theorem ghost_run (v : Variant) : ∀ (tr : List Op) (s : St),
    ghost (s.cur, s.done) tr = ((run v s tr).cur, (run v s tr).done) := by
  intro tr
  induction tr with
  | nil => intro s; rfl
  | cons op tr ih =>
    intro s
    cases op with
    | begin k val => simpa [ghost, run, step] using ih (step v s (.begin k val))
    | ret =>
      cases hc : s.cur with
      | none =>
        have := ih (step v s .ret)
        simp [step, hc] at this
        simpa [ghost, run, step, hc] using this
      | some kv =>
        have := ih (step v s .ret)
        simp only [step, hc] at this
        simpa [ghost, run, step, hc] using this
    | mkdir d => simpa [ghost, run, step] using ih (step v s (.mkdir d))
    | creatTrunc f => simpa [ghost, run, step] using ih (step v s (.creatTrunc f))
    | write f d => simpa [ghost, run, step] using ih (step v s (.write f d))
    | fsyncFile f => simpa [ghost, run, step] using ih (step v s (.fsyncFile f))
    | fsyncDir d => simpa [ghost, run, step] using ih (step v s (.fsyncDir d))
    | close f => simpa [ghost, run, step] using ih (step v s (.close f))

/-! ------------------------------------------------------------------------------------------
  ## Property theorems
------------------------------------------------------------------------------------------ -/

/-- crash images after a prefix of the trace -/
def crashAfter (v : Variant) (pre : List Op) : List Image := crash (run v init pre).fs

/-- **C17, core form.**  For every well-formed trace (any number of sets, any keys and values),
    every prefix of it (= every crash instant), every crash image of that prefix under either
    persistence variant, and every key other than the one whose set is in progress: a fresh store
    reads exactly the last completed value of the key, or "missing" (`:undefined`, never a
    failure) if no set of it has completed. -/
theorem crash_safety_core (v : Variant) (tr pre suf : List Op) (htr : tr = pre ++ suf)
    (hwf : WF v tr = true) :
    ∀ c ∈ crashAfter v pre, ∀ k, inProgress pre ≠ some k → recover c k = lastCompleted pre k := by
  subst htr
  have hpre : (runWF v init pre).isSome = true := WF_prefix v pre suf hwf
  obtain ⟨s, hs⟩ := Option.isSome_iff_exists.mp hpre
  have hrun : s = run v init pre := runWF_eq_run v pre init s hs
  have hinv : Inv s := inv_runWF v pre init s hs inv_init
  have hg : ghost (none, []) pre = (s.cur, s.done) := by
    rw [hrun]; exact ghost_run v pre init
  intro c hc k hk
  simp only [crashAfter, ← hrun] at hc
  have hcur : curKey s ≠ some k := by
    simpa [inProgress, curKey, hg] using hk
  have hdone : lastCompleted pre k = s.done.lookup k := by
    simp [lastCompleted, hg]
  rw [hdone]
  have := hinv k hcur
  split at this
  · next val heq => rw [heq]; exact recover_stable this c hc
  · next heq => rw [heq]; exact recover_absent this c hc

/-- **C17 as stated.**  (1) a completed set survives every crash: any key with a completed set,
    not currently being rewritten, reads its last completed value on every crash image of every
    later instant; (2) an interrupted set harms no other key: every key other than the one in
    progress reads what it read before the set started — its last completed value, or missing —
    and the read never fails. -/
theorem crash_safety (v : Variant) (tr : List Op) (hwf : WF v tr = true)
    (pre suf : List Op) (htr : tr = pre ++ suf) (c : Image) (hc : c ∈ crashAfter v pre) :
    (∀ k val, lastCompleted pre k = some val → inProgress pre ≠ some k → recover c k = some val) ∧
    (∀ k, inProgress pre ≠ some k → lastCompleted pre k = none → recover c k = none) := by
  constructor
  · intro k val h1 h2
    rw [crash_safety_core v tr pre suf htr hwf c hc k h2, h1]
  · intro k h2 h1
    rw [crash_safety_core v tr pre suf htr hwf c hc k h2, h1]

/-- once a set has returned (the trace up to and including its `ret`), its value is what every
    crash image reads until another set of the same key begins -/
theorem completed_set_is_durable (v : Variant) (tr : List Op) (hwf : WF v tr = true)
    (pre suf : List Op) (htr : tr = pre ++ suf) (k : Path) (val : Bytes)
    (hdone : lastCompleted pre k = some val) (hidle : inProgress pre = none) :
    ∀ c ∈ crashAfter v pre, recover c k = some val := by
  intro c hc
  exact (crash_safety v tr hwf pre suf htr c hc).1 k val hdone (by simp [hidle])

/-! ### non-vacuity and witnesses -/

/-- two sets of a nested key and a set of a flat key with the repaired `_write_file` skeleton -/
def demoSets : List (Path × Bytes) := [([1, 2], [10, 11, 12]), ([3], [20]), ([1, 2], [30, 31])]

def demoFixed : List Op := traceOf .strict skFixed true 16 init demoSets
def demoPinned : List Op := traceOf .strict skPinned true 16 init demoSets
/-- pinned skeleton with a buffer smaller than the value (the write reaches the kernel first) -/
def demoPinnedDirect : List Op := traceOf .strict skPinned true 2 init demoSets

/-- the repaired write path is well-formed under the strict variant (hypothesis of
    `crash_safety` is satisfiable by a non-trivial trace: 3 sets, nested key, overwrite) -/
example : WF .strict demoFixed = true := by decide
example : demoFixed.length = 22 := by decide

/-- and the theorem's conclusion on a concrete crash instant: in the middle of the third set
    (an overwrite of key 1/2) key 3 reads its value on all crash images -/
example : ∀ c ∈ crashAfter .strict (demoFixed.take 18), recover c [3] = some [20] := by decide

/-- the property allows the key being written to lose its OLD value (open('wb') truncates in
    place): there is a crash image of the interrupted overwrite on which 1/2 reads neither the old
    nor the new value -/
theorem overwrite_can_lose_old_value_of_same_key :
    ∃ c ∈ crashAfter .strict (demoFixed.take 18), recover c [1, 2] = some [] := by decide

/-- pinned tree, defect 1 (both variants): the value sits in the BufferedWriter when fsync runs,
    so the trace is fsync-then-write; not well-formed, and after the set has returned there is a
    crash image on which the completed key reads an empty file -/
theorem pinned_small_value_not_durable :
    WF .journalled (demoPinned.take 7) = false ∧
    inProgress (demoPinned.take 7) = none ∧
    lastCompleted (demoPinned.take 7) [1, 2] = some [10, 11, 12] ∧
    ∃ c ∈ crashAfter .journalled (demoPinned.take 7), recover c [1, 2] = some [] := by decide

/-- pinned tree, defect 2 (strict variant only; shown with a value larger than the buffer so that
    defect 1 does not interfere): no directory fsync — after the set has returned a crash can lose
    the new key altogether -/
theorem pinned_new_key_can_vanish_strict :
    WF .strict (demoPinnedDirect.take 7) = false ∧
    WF .journalled (demoPinnedDirect.take 7) = true ∧
    lastCompleted (demoPinnedDirect.take 7) [1, 2] = some [10, 11, 12] ∧
    ∃ c ∈ crashAfter .strict (demoPinnedDirect.take 7), recover c [1, 2] = none := by decide

end Klong.C17
