/-
  C12 — helper lemmas, part 6: `_factor` (one step of fuel) and the induction over fuel.
-/
import Klong.Props.C12Parser2
namespace Klong.C12

theorem step_factor {cfg : Cfg} (hg : cfg.guardEmptyMarker = true) {t : Text} {fuel : Nat} (ih : Spec cfg t fuel) :
    ∀ i ign m, i ≤ t.length + 1 → need t.length i 2 ≤ fuel + 1 →
    SatW (t.length + 2) (PV 24 9 t.length i) (EB t.length i 20) (factor cfg t (fuel + 1) i ign m) := by
  intro i ign m hi hf
  rw [factor]
  try dsimp only
  have hs := skip_bounds cfg t i ign
  generalize skip cfg t i ign = ii at hs ⊢
  split
  · rename_i hc
    have hl := cmatch2_lt hc
    refine satW_bind (ih.readExprArray (ii + 2) m (by omega) (by pa)) (fun q h => by pa) ?_
    intro i1 es m1 q1 h
    refine satW_ok 1 (by omega) ?_
    pa
  · refine satW_bind (kgReadArray_units cfg t fuel i ign m hi (by pa)) (fun q h => by pa) ?_
    intro i1 a m1 q1 h
    -- an adverb after the factor
    have hadv : ∀ (i2 : Nat) (v : Node) (m2 : PState) (qa : Nat), i < i2 → i2 ≤ t.length + 1 → v.isNone = false →
        qa + 30 ≤ 100 * (i2 - i) →
        SatW (t.length + 2) (fun i' v' q => PV 24 9 t.length i i' v' (q + qa)) (fun q => EB t.length i 20 (q + qa))
          (onAdverb t i2 (fun i3 adv => applyAdverbs cfg t fuel i3 v adv 1 false Node.none m2)
            (fun _ => Res.ok i2 v m2 1)) := by
      intro i2 v m2 qa h1 h2 hv hq
      refine satW_onAdverb ?_ ?_
      · intro i3 adv h3 h3'
        refine satW_mono (ih.applyAdverbs i3 v adv 1 false Node.none m2 (by omega) (by pa)) ?_ ?_
        · intro i' v' q h'
          pa
        · intro q h'
          pa
      · refine satW_ok 1 (by omega) ?_
        pa
    split
    · rename_i hn
      refine satW_ok 1 (by omega) ?_
      simp only [KU, hn] at h
      simp only [PV, hn]
      pa
    · rename_i hn
      simp only [Bool.not_eq_true] at hn
      simp only [KU, hn] at h
      split
      · -- a function
        refine satW_bind (ih.readFn i1 m1 (by pa) (by pa)) (fun q h' => by pa) ?_
        intro i2 f m2 q2 h2
        refine satW_mono (hadv i2 f m2 (q2 + q1) (by pa) (by pa) (by pa) (by pa)) ?_ ?_
        · intro i' v' q h'
          simp only [Nat.add_assoc] at h' ⊢
          exact h'
        · intro q h'
          simp only [Nat.add_assoc] at h' ⊢
          exact h'
      · split
        · -- a symbol
          split
          · refine satW_bind (ih.readFnArgs i1 m1 (by pa) (by pa)) (fun q h' => by pa) ?_
            intro i2 fa m2 q2 h2
            try dsimp only
            split
            · -- .comment(marker)
              split
              · refine satW_err 1 (by omega) ?_
                pa
              · refine satW_readSysComment hg (by pa) (by omega) (by pa) ?_
                intro i3 st h31 h32 hst
                refine satW_addSteps 2 hst ?_
                refine satW_mono (ih.factor i3 ign m2 (by omega) (by pa)) ?_ ?_
                · intro i' v' q h'
                  cases hv' : v'.isNone
                  · simp only [PV, hv'] at h' ⊢; pa
                  · simp only [PV, hv'] at h' ⊢; pa
                · intro q h'
                  pa
            · split
              · -- .module(name)
                split
                · refine satW_err 1 (by omega) ?_
                  pa
                · refine satW_mono (hadv i2 _ _ (q2 + q1) (by pa) (by pa) rfl (by pa)) ?_ ?_
                  · intro i' v' q h'
                    simp only [Nat.add_assoc] at h' ⊢
                    exact h'
                  · intro q h'
                    simp only [Nat.add_assoc] at h' ⊢
                    exact h'
              · refine satW_mono (hadv i2 _ _ (q2 + q1) (by pa) (by pa) rfl (by pa)) ?_ ?_
                · intro i' v' q h'
                  simp only [Nat.add_assoc] at h' ⊢
                  exact h'
                · intro q h'
                  simp only [Nat.add_assoc] at h' ⊢
                  exact h'
          · exact hadv i1 a m1 q1 (by pa) (by pa) hn (by pa)
        · split
          · -- a monadic operator
            refine satW_onAdverb ?_ ?_
            · intro i3 adv h3 h3'
              refine satW_mono (ih.applyAdverbs i3 a adv 1 false Node.none m1 (by omega) (by pa)) ?_ ?_
              · intro i' v' q h'
                pa
              · intro q h'
                pa
            · refine satW_bind (ih.expr i1 ign m1 (by pa) (by pa)) (fun q h' => by pa) ?_
              intro i2 x m2 q2 h2
              have hb : i1 ≤ i2 ∧ i2 ≤ t.length + 1 ∧ Bd 12 10 i1 i2 q2 := ⟨h2.1, h2.2.1, h2.2.2.2.2⟩
              clear h2
              refine satW_ok 1 (by omega) ?_
              pa
          · split
            · -- a parenthesised expression
              refine satW_bind (ih.expr i1 ign m1 (by pa) (by pa)) (fun q h' => by pa) ?_
              intro i2 x m2 q2 h2
              refine satW_cexpect (by omega) (by pa) ?_
              intro hcm
              have hl := cmatch_lt hcm
              refine satW_ok 1 (by omega) ?_
              cases hx : x.isNone
              · simp only [PV, hx] at h2 ⊢; pa
              · simp only [PV, hx] at h2 ⊢; pa
            · split
              · -- a conditional
                refine satW_mono (ih.readCond i1 m1 (by pa) (by pa)) ?_ ?_
                · intro i' v' q h'
                  pa
                · intro q h'
                  pa
              · refine satW_ok 1 (by omega) ?_
                simp only [PV, hn]
                pa

theorem spec_succ {cfg : Cfg} (hg : cfg.guardEmptyMarker = true) {t : Text} {fuel : Nat} (ih : Spec cfg t fuel) :
    Spec cfg t (fuel + 1) :=
  { prog := step_prog ih, progLoop := step_progLoop ih, expr := step_expr ih, exprLoop := step_exprLoop ih,
    readFn := step_readFn ih, applyAdverbs := step_applyAdverbs ih, readFnArgs := step_readFnArgs ih,
    fnArgsLoop := step_fnArgsLoop ih, readCond := step_readCond ih, readExprArray := step_readExprArray ih,
    exprArrayLoop := step_exprArrayLoop ih, factor := step_factor hg ih }

/-- the invariant holds for every amount of fuel -/
theorem spec_all (cfg : Cfg) (hg : cfg.guardEmptyMarker = true) (t : Text) : ∀ fuel, Spec cfg t fuel
  | 0 => spec_zero cfg t
  | fuel + 1 => spec_succ hg (spec_all cfg hg t fuel)

end Klong.C12
