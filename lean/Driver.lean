import Klong.Model.Wire
import Klong.Model.C16
open Klong

def main (args : List String) : IO UInt32 := do
  let stdin ← IO.getStdin
  let stdout ← IO.getStdout
  match args with
  | ["c16"] => Wire.loop stdin stdout C16.handle (C16.init 0 []); return 0
  | _ => IO.eprintln "usage: kdriver <model>"; return 2
