import Klong.Model.C12
open Klong

def main (_args : List String) : IO UInt32 := do
  Wire.loop (← IO.getStdin) (← IO.getStdout) C12.handle C12.init
  return 0
