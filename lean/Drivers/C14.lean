import Klong.Model.C14
open Klong

def main (_args : List String) : IO UInt32 := do
  Wire.loop (← IO.getStdin) (← IO.getStdout) C14.handle (C14.init .fixed [] [])
  return 0
