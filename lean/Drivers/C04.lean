import Klong.Model.C04
open Klong

def main (_args : List String) : IO UInt32 := do
  Wire.loop (← IO.getStdin) (← IO.getStdout) C04.handle C04.init
  return 0
