import Klong.Model.C08
open Klong

def main (_args : List String) : IO UInt32 := do
  Wire.loop (← IO.getStdin) (← IO.getStdout) C08.handle C08.init
  return 0
