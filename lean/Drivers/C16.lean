import Klong.Model.C16
open Klong

def main (_args : List String) : IO UInt32 := do
  Wire.loop (← IO.getStdin) (← IO.getStdout) C16.handle (C16.init 0 [])
  return 0
