import Klong.Model.C10
open Klong

def main (_args : List String) : IO UInt32 := do
  Wire.loop (← IO.getStdin) (← IO.getStdout) C10.handle C10.init
  return 0
