import Klong.Model.C09
open Klong

def main (_args : List String) : IO UInt32 := do
  Wire.loop (← IO.getStdin) (← IO.getStdout) C09.handle C09.init
  return 0
