import Klong.Model.C03
open Klong

def main (_args : List String) : IO UInt32 := do
  Wire.loop (← IO.getStdin) (← IO.getStdout) C03.handle C03.init
  return 0
