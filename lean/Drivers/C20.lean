import Klong.Model.C20
open Klong

def main (_args : List String) : IO UInt32 := do
  Wire.loop (← IO.getStdin) (← IO.getStdout) C20.handle C20.init
  return 0
