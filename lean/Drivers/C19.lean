import Klong.Model.C19
open Klong

def main (_args : List String) : IO UInt32 := do
  Wire.loop (← IO.getStdin) (← IO.getStdout) C19.handle C19.init
  return 0
