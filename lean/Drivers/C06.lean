import Klong.Model.C06
open Klong

def main (_args : List String) : IO UInt32 := do
  Wire.loop (← IO.getStdin) (← IO.getStdout) C06.handle C06.init
  return 0
