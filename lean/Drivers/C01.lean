import Klong.Model.C01
import Klong.Model.C01Ext1
import Klong.Model.C01Ext2
import Klong.Model.C01Ext3
import Klong.Model.C01Ext4
open Klong Klong.C01

/-- the base model first; verbs it leaves unmodelled are tried in the extensions -/
def firstModelled (rs : List Res) : Res :=
  match rs.find? (fun r => match r with | .unmodelled => false | _ => true) with
  | some r => r
  | none => .unmodelled

def handleAll (s : C01.State) (ws : List String) : C01.State × String :=
  match ws with
  | "D" :: verb :: rest =>
    match Val.parseMany (Val.tokenize (" ".intercalate rest)) with
    | some [a, b] =>
      let impl := firstModelled [implDyad verb a b, Ext1.implDyad verb a b, Ext2.implDyad verb a b, Ext3.implDyad verb a b, Ext4.implDyad verb a b]
      (s, s!"ref={showOpt (((refDyad verb a b).orElse fun _ => Ext3.refDyad verb a b).orElse fun _ => Ext4.refDyad verb a b)} impl={showRes impl}")
    | _ => (s, "bad-op")
  | "M" :: verb :: rest =>
    match Val.parseMany (Val.tokenize (" ".intercalate rest)) with
    | some [a] =>
      let impl := firstModelled [implMonad verb a, Ext1.implMonad verb a, Ext2.implMonad verb a, Ext3.implMonad verb a, Ext4.implMonad verb a]
      (s, s!"ref={showOpt (((refMonad verb a).orElse fun _ => Ext3.refMonad verb a).orElse fun _ => Ext4.refMonad verb a)} impl={showRes impl}")
    | _ => (s, "bad-op")
  | _ => (s, "bad-op")

def main (_args : List String) : IO UInt32 := do
  Wire.loop (← IO.getStdin) (← IO.getStdout) handleAll C01.init
  return 0
