import Klong.Model.C01
open Klong

def main (_args : List String) : IO UInt32 := do
  Wire.loop (← IO.getStdin) (← IO.getStdout) C01.handle C01.init
  return 0
