import Klong.Model.C02Ext
open Klong

def main (_args : List String) : IO UInt32 := do
  Wire.loop (← IO.getStdin) (← IO.getStdout) C02.handleX C02.init
  return 0
