import Klong.Model.C13
open Klong

def main (_args : List String) : IO UInt32 := do
  Wire.loop (← IO.getStdin) (← IO.getStdout) C13.handle C13.init
  return 0
