import Klong.Model.C07
open Klong

def main (_args : List String) : IO UInt32 := do
  Wire.loop (← IO.getStdin) (← IO.getStdout) C07.handle C07.init
  return 0
