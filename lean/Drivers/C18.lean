import Klong.Model.C18
open Klong

def main (_args : List String) : IO UInt32 := do
  Wire.loop (← IO.getStdin) (← IO.getStdout) C18.handle (C18.init 0 [] [])
  return 0
