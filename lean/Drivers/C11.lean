import Klong.Model.C11
open Klong

def main (_args : List String) : IO UInt32 := do
  Wire.loop (← IO.getStdin) (← IO.getStdout) C11.handle C11.init
  return 0
