import Klong.Model.C15
open Klong

def main (_args : List String) : IO UInt32 := do
  Wire.loop (← IO.getStdin) (← IO.getStdout) C15.handle C15.dinit
  return 0
