import Klong.Model.C05
open Klong

def main (_args : List String) : IO UInt32 := do
  Wire.loop (← IO.getStdin) (← IO.getStdout) C05.handle C05.init
  return 0
