import Klong.Model.C17
open Klong

def main (_args : List String) : IO UInt32 := do
  Wire.loop (← IO.getStdin) (← IO.getStdout) C17.handle C17.dinit
  return 0
